import Driver.Common
import Scion.Model.Trc
/-! Driver for the TRC models (engine `trc`, properties C33 and C32).  Parses fact lines, calls
the model, prints.  Formats: see `harness/cmd/trc/main.go`. -/
namespace Driver.Trc
open Scion.Trc

def splitList (s : String) (sep : Char) : List String :=
  if s == "-" then [] else (s.split (· == sep)).toList.map (·.toString)

def natList (s : String) : Option (List Nat) := (splitList s ',').mapM (·.toNat?)
def intList (s : String) : Option (List Int) := (splitList s ',').mapM (·.toInt?)

def parseCls : String → Option Cls
  | "x" => some .bad | "s" => some .sens | "r" => some .reg | "o" => some .root
  | "c" => some .ca | "a" => some .as | _ => none

def parseOptNat (s : String) : Option (Option Nat) :=
  if s == "-" then some none else s.toNat?.map some

/-- `id:cls:subj:issN:issR:serial:ski:iaKind:isd:nb:na` -/
def parseCert (s : String) : Option Cert :=
  match splitList s ':' with
  | [id, cls, subj, issN, issR, serial, ski, iaKind, isd, nb, na] => do
    some { id := ← id.toNat?, cls := ← parseCls cls, subj := ← subj.toNat?, issN := ← issN.toNat?,
           issR := ← issR.toNat?, serial := ← serial.toNat?, ski := ← parseOptNat ski,
           iaKind := ← iaKind.toNat?, isd := ← isd.toNat?, nb := ← nb.toInt?, na := ← na.toInt? }
  | _ => none

/-- 13 words: version isd base serial nb na grace noTrustReset quorum votes core auth certs -/
def parseTRC : List String → Option TRC
  | [version, isd, base, serial, nb, na, grace, ntr, quorum, votes, core, auth, certs] => do
    some { version := ← version.toInt?, isd := ← isd.toNat?, base := ← base.toNat?,
           serial := ← serial.toNat?, nb := ← nb.toInt?, na := ← na.toInt?, grace := ← grace.toInt?,
           noTrustReset := ntr == "1", votes := ← intList votes, quorum := ← quorum.toInt?,
           core := ← natList core, auth := ← natList auth,
           certs := ← (splitList certs ',').mapM parseCert }
  | _ => none

def showVal : Except Err Unit → String
  | .ok _ => "ok"
  | .error e => "err " ++ e.name

def handle : List String → String
  | "val" :: rest => match parseTRC rest with
    | some t => showVal (validate t)
    | none => "bad-op"
  | _ => "bad-op"

end Driver.Trc

def main : IO Unit := Driver.statelessLoop Driver.Trc.handle
