import Driver.Common
import Scion.Model.Trc
import Scion.Model.TrcUpdate
/-! Driver for the TRC models (engine `trc`, properties C33 and C32).  Parses fact lines, calls
the model, prints.  Formats: see `harness/cmd/trc/main.go`. -/
namespace Driver.Trc
open Scion.Trc

def splitList (s : String) (sep : Char) : List String :=
  if s == "-" then [] else (s.split (· == sep)).toList.map (·.toString)

def natList (s : String) : Option (List Nat) := (splitList s ',').mapM (·.toNat?)
def intList (s : String) : Option (List Int) := (splitList s ',').mapM (·.toInt?)

def parseCls : String → Option Cls
  | "x" => some .bad | "s" => some .sens | "r" => some .reg | "o" => some .root
  | "c" => some .ca | "a" => some .as | _ => none

def parseOptNat (s : String) : Option (Option Nat) :=
  if s == "-" then some none else s.toNat?.map some

/-- `id:cls:subj:issN:issR:serial:ski:iaKind:isd:nb:na` -/
def parseCert (s : String) : Option Cert :=
  match splitList s ':' with
  | [id, cls, subj, issN, issR, serial, ski, iaKind, isd, nb, na] => do
    some { id := ← id.toNat?, cls := ← parseCls cls, subj := ← subj.toNat?, issN := ← issN.toNat?,
           issR := ← issR.toNat?, serial := ← serial.toNat?, ski := ← parseOptNat ski,
           iaKind := ← iaKind.toNat?, isd := ← isd.toNat?, nb := ← nb.toInt?, na := ← na.toInt? }
  | _ => none

/-- 13 words: version isd base serial nb na grace noTrustReset quorum votes core auth certs -/
def parseTRC : List String → Option TRC
  | [version, isd, base, serial, nb, na, grace, ntr, quorum, votes, core, auth, certs] => do
    some { version := ← version.toInt?, isd := ← isd.toNat?, base := ← base.toNat?,
           serial := ← serial.toNat?, nb := ← nb.toInt?, na := ← na.toInt?, grace := ← grace.toInt?,
           noTrustReset := ntr == "1", votes := ← intList votes, quorum := ← quorum.toInt?,
           core := ← natList core, auth := ← natList auth,
           certs := ← (splitList certs ',').mapM parseCert }
  | _ => none

def showVal : Except Err Unit → String
  | .ok _ => "ok"
  | .error e => "err " ++ e.name

/-- `kind:iss:serial:ski:ok1+ok2` -/
def parseSigner (s : String) : Option Signer :=
  match splitList s ':' with
  | [kind, iss, serial, ski, oks] => do
    some { kind := ← kind.toNat?, iss := ← iss.toNat?, serial := ← serial.toNat?, ski := ← ski.toNat?,
           okUnder := ← (splitList oks '+').mapM (·.toNat?) }
  | _ => none

def insertSorted (x : Nat) : List Nat → List Nat
  | [] => [x]
  | y :: ys => if x ≤ y then x :: y :: ys else y :: insertSorted x ys

def sortNats (l : List Nat) : List Nat := l.foldr insertSorted []

def showNats (l : List Nat) : String :=
  if l.isEmpty then "-" else ",".intercalate (l.map toString)

def showUpdate (u : Update) : String :=
  (match u.type with | .sensitive => "sensitive" | .regular => "regular") ++
  " nv=" ++ showNats (sortNats (u.newVoters.map (·.1))) ++
  " v=" ++ showNats (u.votes.map (·.1)) ++
  " a=" ++ showNats (sortNats (u.acks.map (·.1)))

def showVerify (t : TRC) (p : Option TRC) (r : Except VRej (Option Update)) : String :=
  let head := match r with
    | .ok _ => "ok"
    | .error (.upd (.val e)) => "val " ++ e.name
    | .error (.upd .noVotesPanic) => "panic"
    | .error (.upd _) => "upd-rej"
    | .error .basePred => "base-pred"
    | .error _ => "sig-rej"
  -- the classification is reported whenever `ValidateUpdate` itself succeeds
  if t.isBase then head else
    match validateUpdate t p with
    | .ok u => head ++ " | " ++ showUpdate u
    | .error _ => head

def handle : List String → String
  | "val" :: rest => match parseTRC rest with
    | some t => showVal (validate t)
    | none => "bad-op"
  | "upd" :: rest =>
    match parseTRC (rest.take 13), rest.drop 13 with
    | some t, "P" :: rest2 =>
      let pr : Option (Option TRC × List String) := match rest2 with
        | "nil" :: r => some (none, r)
        | _ => (parseTRC (rest2.take 13)).map (fun p => (some p, rest2.drop 13))
      match pr with
      | some (p, ["S", sis]) =>
        match (splitList sis ',').mapM parseSigner with
        | some sis => showVerify t p (verify sis t p)
        | none => "bad-op"
      | _ => "bad-op"
    | _, _ => "bad-op"
  | _ => "bad-op"

end Driver.Trc

def main : IO Unit := Driver.statelessLoop Driver.Trc.handle
