import Driver.Common
import Scion.Model.Ring
/-! Driver for the ring-buffer model (engine `ring`, property C48).

ops (one ring at a time):
* `new <cap> e` | `new <cap> f <ids>`   → state dump
* `w <block> <ids>` | `r <block> <len>` | `c`
     sequential stream: answer = result, index fields and slice contents, exactly as the code
* `lw <block> <ids>` | `lr <block> <len>` | `lc`
     a linearisation of a concurrent history: answer = result only
  a call that would have to wait answers `blocked`.
`<ids>` = comma separated numbers, `-` = none. -/
namespace Driver.Ring
open Scion.Ring

def parseIds (s : String) : Option (List Nat) :=
  if s == "-" then some [] else (s.splitOn ",").mapM String.toNat?

def showCells (cs : List Cell) : String :=
  if cs.isEmpty then "-" else
    ",".intercalate (cs.map fun c => match c with | some v => toString v | none => "nil")

def dump (s : State) : String :=
  s!"{s.w} {s.r} {s.writable} {s.readable} {Driver.boolStr s.closed} {showCells s.buf}"

def pb (s : String) : Option Bool := match s with | "0" => some false | "1" => some true | _ => none

def handle (s : State) : List String → State × String
  | ["new", cap, "e"] =>
    match cap.toNat? with
    | some c => let s' := newEmpty c; (s', dump s')
    | none => (s, "bad-op")
  | ["new", _, "f", ids] =>
    match parseIds ids with
    | some es => let s' := newFull es; (s', dump s')
    | none => (s, "bad-op")
  | [op, b, arg] =>
    match pb b with
    | none => (s, "bad-op")
    | some b =>
      if op == "w" || op == "lw" then
        match parseIds arg with
        | none => (s, "bad-op")
        | some es =>
          match write s es b with
          | none => (s, "blocked")
          | some (s', n) => (s', if op == "w" then s!"{n} | {dump s'}" else s!"{n}")
      else if op == "r" || op == "lr" then
        match arg.toNat? with
        | none => (s, "bad-op")
        | some len =>
          match read s len b with
          | none => (s, "blocked")
          | some (s', n, out) =>
            (s', if op == "r" then s!"{n} {showCells out} | {dump s'}" else s!"{n} {showCells out}")
      else (s, "bad-op")
  | ["c"] => let s' := close s; (s', s!"ok | {dump s'}")
  | ["lc"] => (close s, "ok")
  | _ => (s, "bad-op")

end Driver.Ring

def main : IO Unit := Driver.statefulLoop (Scion.Ring.newEmpty 1) Driver.Ring.handle
