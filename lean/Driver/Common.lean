/-! Line-protocol plumbing shared by all model drivers. Core only. -/
namespace Driver

def splitWords (line : String) : List String :=
  (line.splitOn " ").filter (· ≠ "")

def stripNL (s : String) : String :=
  let s := if s.endsWith "\n" then (s.dropEnd 1).toString else s
  if s.endsWith "\r" then (s.dropEnd 1).toString else s

/-- one answer line per input line, no state -/
partial def statelessLoop (f : List String → String) : IO Unit := do
  let stdin ← IO.getStdin
  let stdout ← IO.getStdout
  let rec go : IO Unit := do
    let line ← stdin.getLine
    if line.isEmpty then return ()
    stdout.putStrLn (f (splitWords (stripNL line)))
    go
  go
  stdout.flush

/-- one answer line per input line, threading a state -/
partial def statefulLoop {σ : Type} (init : σ) (f : σ → List String → σ × String) : IO Unit := do
  let stdin ← IO.getStdin
  let stdout ← IO.getStdout
  let rec go (s : σ) : IO Unit := do
    let line ← stdin.getLine
    if line.isEmpty then return ()
    let (s', out) := f s (splitWords (stripNL line))
    stdout.putStrLn out
    go s'
  go init
  stdout.flush

def natArg (s : String) : Option Nat := s.toNat?

def boolStr (b : Bool) : String := if b then "1" else "0"

end Driver
