import Driver.Common
import Scion.Model.Chain
import Scion.Model.ChainParse
/-! Driver for the certificate-chain / trust-provider model (engine `chain`, property C34). -/
namespace Driver.Chain
open Scion.Chain Scion.ChainParse

/-- one TRC argument of a `vfy` op together with its oracle facts -/
structure TrcOp where
  arg : TrcArg
  x509ok : Bool
  facts : X509Facts

def takeTrcOp : List String → Option (TrcOp × List String)
  | "nil" :: ws => some (⟨.nil, false, ⟨[]⟩⟩, ws)
  | "zero" :: ws => some (⟨.zero, false, ⟨[]⟩⟩, ws)
  | "t" :: x :: ws => do
    let x ← parseBool x
    let (cs, ws) ← takeCerts ws
    let (f, ws) ← takeX509Facts ws
    some (⟨.trc cs, x, f⟩, ws)
  | _ => none

def takeTrcOps : Nat → List String → Option (List TrcOp × List String)
  | 0, ws => some ([], ws)
  | n + 1, ws => do
    let (t, ws) ← takeTrcOp ws
    let (r, ws) ← takeTrcOps n ws
    some (t :: r, ws)

def vfy (ws : List String) : Option String := do
  let (_now, ws) ← match ws with
    | w :: ws => w.toInt?.map (·, ws)
    | [] => none
  let (certs, ws) ← takeCerts ws
  let (asByCa, ws) ← match ws with
    | w :: ws => (parseBool w).map (·, ws)
    | [] => none
  let (n, ws) ← match ws with
    | w :: ws => w.toNat?.map (·, ws)
    | [] => none
  let (ts, ws) ← takeTrcOps n ws
  if !ws.isEmpty then none else
  some (if verifyAny certs asByCa (ts.map fun t => (t.arg, t.x509ok)) then "ok" else "rej")

def idOf (t : TrcInfo) : String := s!"{t.base}:{t.serial}"

def renderActive : ActiveRes → String
  | .dbErr => "dberr"
  | .notFound => "notfound"
  | .inactive => "inactive"
  | .one t => s!"one {idOf t}"
  | .two t g => s!"two {idOf t} {idOf g}"

/-- `<now> <failL> <failP> <n> <trcinfo>*` -/
def takeActive (ws : List String) : Option (ActiveRes × List String) :=
  match ws with
  | now :: fl :: fp :: ws => do
    let now ← now.toInt?
    let fl ← parseBool fl
    let fp ← parseBool fp
    let (store, ws) ← takeCounted parseTrcInfo ws
    some (activeOfStore store fl fp now, ws)
  | _ => none

def parseOptList (s : String) : Option (Option (List Nat)) :=
  if s == "e" then some none else (parseNatList s).map some

def parsePair (s : String) : Option (Nat × Nat) :=
  match s.splitOn "." with
  | [a, b] => do some ((← a.toNat?), (← b.toNat?))
  | _ => none

def parsePairs (s : String) : Option (List (Nat × Nat)) :=
  if s == "-" then some [] else (s.splitOn ",").mapM parsePair

def renderList (l : List Nat) : String :=
  if l.isEmpty then "-" else ",".intercalate (l.map toString)

def renderGetErr (a : ActiveRes) : GetErr → String
  | .wildcard => "err wildcard"
  | .db => "err db"
  | .trcs => "err trcs-" ++ renderActive a
  | .recursion => "err recursion"
  | .fetch => "err fetch"
  | .insert => "err insert"

def gc (ws : List String) : Option String :=
  match ws with
  | wild :: ai :: rec :: insf :: db :: fe :: oks :: ws => do
    let wildcard ← parseBool wild
    let allowInactive ← parseBool ai
    let recursionAllowed ← parseBool rec
    let insertFails ← parseBool insf
    let dbChains ← parseOptList db
    let fetched ← parseOptList fe
    let pairs ← parsePairs oks
    let (active, ws) ← takeActive ws
    if !ws.isEmpty then none else
    let inp : GetIn := { wildcard, allowInactive, dbChains, active,
                         ok := fun c i => pairs.contains (c, i),
                         recursionAllowed, fetched, insertFails }
    match getChains inp with
    | .ok l => some ("ok " ++ renderList l)
    | .error e => some (renderGetErr active e)
  | _ => none

/-- file word: `u` | `c:<valid>:<inValidity>:<isd1>:<ok0>:<ok1>:<insertFails>:<dup>` -/
def parseFile (act1 act2 : ActiveRes) (w : String) : Option FileIn :=
  if w == "u" then
    some ⟨false, false, false, .notFound, false, false, false, false⟩
  else match w.splitOn ":" with
  | ["c", v, iv, isd1, o0, o1, inf, d] => do
    let isd1 ← parseBool isd1
    some { readable := true, chainValid := (← parseBool v), inValidity := (← parseBool iv),
           active := if isd1 then act1 else act2, ok0 := (← parseBool o0), ok1 := (← parseBool o1),
           insertFails := (← parseBool inf), duplicate := (← parseBool d) }
  | _ => none

def renderFileRes : FileRes → String
  | .ignored => "I" | .loaded => "L" | .abort => "A"

/-- `lc <active of ISD 1: now failL failP n trcinfo*> <nfiles> <file>*`; chains of another ISD
find no TRC -/
def lc (ws : List String) : Option String := do
  let (act, act2, ws) ← match ws with
    | now :: fl :: fp :: ws => do
      let now ← now.toInt?
      let fl ← parseBool fl
      let fp ← parseBool fp
      let (store, ws) ← takeCounted parseTrcInfo ws
      some (activeOfStore store fl fp now, activeOfStore [] fl fp now, ws)
    | _ => none
  let (files, ws) ← takeCounted (parseFile act act2) ws
  if !ws.isEmpty then none else
  let r := loadChains files
  some (if r.isEmpty then "-" else String.join (r.map renderFileRes))

def handle : List String → String
  | ["cert", w] =>
    match parseCert w with
    | some c => let r := validateCert c; s!"{r.1.toNat} {Driver.boolStr r.2}"
    | none => "bad-op"
  | "vc" :: ws =>
    match takeCerts ws with
    | some (cs, []) => if chainOk cs then "ok" else "rej"
    | _ => "bad-op"
  | "vfy" :: ws => (vfy ws).getD "bad-op"
  | "act" :: ws =>
    match takeActive ws with
    | some (a, []) => renderActive a
    | _ => "bad-op"
  | "gc" :: ws => (gc ws).getD "bad-op"
  | "lc" :: ws => (lc ws).getD "bad-op"
  | _ => "bad-op"

end Driver.Chain

def main : IO Unit := Driver.statelessLoop Driver.Chain.handle
