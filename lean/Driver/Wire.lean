import Driver.Common
import Scion.Model.Wire
import Scion.Model.WireExt
import Scion.Model.ScmpMsg
import Scion.Util.WireText
/-! Driver for the SCION header codec model (engine `wire`, property C18). -/
namespace Driver.Wire
open Scion.Wire Scion.WireExt Scion.ScmpMsg Scion.Util Scion Scion.WireText


def optStr (o : Opt) : String := s!"{o.typ}:{o.dataLen}:{hexOf o.data}"

def optsStr (os : List Opt) : String :=
  if os.isEmpty then "-" else ",".intercalate (os.map optStr)

def eerrStr (e : EErr) : String :=
  match e with
  | .panic => "PANIC-MODEL"
  | .short => "err 1"
  | _ => "err 0"

def chkOf (k : String) : Option (Nat → Bool) :=
  if k == "hbh" then some hbhChk else if k == "e2e" then some e2eChk else none

/-- serializer input option: `type:datahex:alignX:alignY` -/
def parseOptIn (s : String) : Option Opt :=
  match s.splitOn ":" with
  | [t, d, x, y] =>
    match t.toNat?, unhex d, x.toNat?, y.toNat? with
    | some t, some d, some x, some y => some ⟨t, d.length, d, x, y⟩
    | _, _, _, _ => none
  | _ => none

def parseOptsIn (s : String) : Option (List Opt) :=
  if s == "-" then some [] else (s.splitOn ",").mapM parseOptIn

def handle : List String → String
  | ["dec", hex] =>
    match unhex hex with
    | none => "bad-op"
    | some data =>
      match decodeSCION data with
      | .ok (h, payload) => s!"ok {hdrStr h} pld={payload.length}"
      | .error e => errStr e
  | ["rt", hex] =>
    match unhex hex with
    | none => "bad-op"
    | some data =>
      match decodeSCION data with
      | .error e => errStr e
      | .ok (h, payload) =>
        match encodeSCION h with
        | .ok b => hexOf (b ++ payload)
        | .error _ => "ser-err"
  | "ser" :: fix :: pld :: rest =>
    match fix.toNat?, pld.toNat?, parseHdr rest with
    | some fix, some pld, some h =>
      let h := if fix = 1 then fixLengths h pld else h
      match encodeSCION h with
      | .ok b => hexOf b
      | .error _ => "ser-err"
    | _, _, _ => "bad-op"
  | ["ext", k, hex] =>
    match chkOf k, unhex hex with
    | some chk, some data =>
      match decExt chk data with
      | .ok (x, payload) => s!"ok {x.base.nextHdr} {x.base.extLen} {optsStr x.opts} pld={payload.length}"
      | .error e => eerrStr e
    | _, _ => "bad-op"
  | ["xrt", k, hex] =>
    match chkOf k, unhex hex with
    | some chk, some data =>
      match decExt chk data with
      | .error e => eerrStr e
      | .ok (x, payload) =>
        match encExt chk false x with
        | .ok b => hexOf (b ++ payload)
        | .error _ => "ser-err"
    | _, _ => "bad-op"
  | ["sext", k, fix, nh, el, opts] =>
    match chkOf k, fix.toNat?, nh.toNat?, el.toNat?, parseOptsIn opts with
    | some chk, some fix, some nh, some el, some os =>
      match encExt chk (fix == 1) ⟨⟨nh, el⟩, os⟩ with
      | .ok b => hexOf b
      | .error _ => "ser-err"
    | _, _, _, _, _ => "bad-op"
  | ["udp", hex] =>
    match unhex hex with
    | none => "bad-op"
    | some data =>
      match decUDP data with
      | .ok (u, pl) =>
        let tr := if u.length ≥ 8 ∧ u.length > data.length then 1 else 0
        s!"ok {u.srcPort} {u.dstPort} {u.length} {u.checksum} pld={pl.length} trunc={tr}"
      | .error .short => "err 1"
      | .error .udpLen => "err 0"
  | ["scmp", hex] =>
    match unhex hex with
    | none => "bad-op"
    | some data =>
      match decSCMP data with
      | .ok (h, pl) => s!"ok {h.typ} {h.code} {h.checksum} pld={pl.length}"
      | .error _ => "err 1"
  -- SCMP message layer selected by the SCMP type: field values, or `payload` for unknown types
  | ["smsg", typ, hex] =>
    match typ.toNat?, unhex hex with
    | some t, some data =>
      match msgSpec t with
      | none => "payload"
      | some spec =>
        match decMsg spec data with
        | .ok (vs, pl) =>
          let vstr := if vs.isEmpty then "-" else ",".intercalate (vs.map toString)
          s!"ok {vstr} pld={pl.length}"
        | .error .short => "err 1"
        | .error .panic => "PANIC-MODEL"
    | _, _ => "bad-op"
  | ["smrt", typ, hex] =>
    match typ.toNat?, unhex hex with
    | some t, some data =>
      match msgSpec t with
      | none => "payload"
      | some spec =>
        match decMsg spec data with
        | .ok (vs, pl) => hexOf (encFields spec vs ++ pl)
        | .error .short => "err 1"
        | .error .panic => "PANIC-MODEL"
    | _, _ => "bad-op"
  -- SPAO option views: ParsePacketAuthOption + SPI/Algorithm/TimestampSN/Authenticator
  | ["aopt", typ, hex] =>
    match typ.toNat?, unhex hex with
    | some t, some d =>
      match parseAuthOpt ⟨t, d.length, d, 0, 0⟩ with
      | .ok p => s!"ok {p.spi} {p.alg} {p.ts} {hexOf p.auth}"
      | .error _ => "err"
    | _, _ => "bad-op"
  -- NewPacketAuthOption
  | ["sopt", spi, alg, ts, auth] =>
    match spi.toNat?, alg.toNat?, ts.toNat?, unhex auth with
    | some spi, some alg, some ts, some auth =>
      match encAuthOpt ⟨spi, alg, ts, auth⟩ with
      | .ok o => s!"ok {o.typ} {o.dataLen} {hexOf o.data} {o.alignX} {o.alignY}"
      | .error _ => "err"
    | _, _, _, _ => "bad-op"
  | _ => "bad-op"

end Driver.Wire

def main : IO Unit := Driver.statelessLoop Driver.Wire.handle
