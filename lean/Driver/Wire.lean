import Driver.Common
import Scion.Model.Wire
import Scion.Util.WireText
/-! Driver for the SCION header codec model (engine `wire`, property C18). -/
namespace Driver.Wire
open Scion.Wire Scion.Util Scion Scion.WireText

def handle : List String → String
  | ["dec", hex] =>
    match unhex hex with
    | none => "bad-op"
    | some data =>
      match decodeSCION data with
      | .ok (h, payload) => s!"ok {hdrStr h} pld={payload.length}"
      | .error e => errStr e
  | ["rt", hex] =>
    match unhex hex with
    | none => "bad-op"
    | some data =>
      match decodeSCION data with
      | .error e => errStr e
      | .ok (h, payload) =>
        match encodeSCION h with
        | .ok b => hexOf (b ++ payload)
        | .error _ => "ser-err"
  | "ser" :: fix :: pld :: rest =>
    match fix.toNat?, pld.toNat?, parseHdr rest with
    | some fix, some pld, some h =>
      let h := if fix = 1 then fixLengths h pld else h
      match encodeSCION h with
      | .ok b => hexOf b
      | .error _ => "ser-err"
    | _, _, _ => "bad-op"
  | _ => "bad-op"

end Driver.Wire

def main : IO Unit := Driver.statelessLoop Driver.Wire.handle
