import Driver.Common
import Scion.Model.RevCache
/-! Driver for the revocation-cache model (engine `revcache`, property C31).

    new                                     → ok            (fresh cache)
    ins <now-ms> <ia> <ifid> <lt> <ts> <ttl> → 1 | 0
    get <now-ms> <ia> <ifid>                → none | <lt> <ts> <ttl>
    del <now-ms>                            → <evicted>
    all <now-ms>                            → <n> <ia>:<ifid>:<lt>:<ts>:<ttl> …  (sorted by key)
-/
namespace Driver.Revcache
open Scion.RevCache

def keyLt (a b : Rev) : Bool :=
  a.key.ia < b.key.ia || (a.key.ia == b.key.ia && a.key.ifid < b.key.ifid)

def insertSorted (r : Rev) : List Rev → List Rev
  | [] => [r]
  | x :: xs => if keyLt r x then r :: x :: xs else x :: insertSorted r xs

def sortRevs (l : List Rev) : List Rev := l.foldr insertSorted []

def showRev (r : Rev) : String :=
  s!"{r.key.ia}:{r.key.ifid}:{r.linkType}:{r.ts}:{r.ttl}"

def render : Out → String
  | .accepted b => if b then "1" else "0"
  | .got none => "none"
  | .got (some r) => s!"{r.linkType} {r.ts} {r.ttl}"
  | .deleted n => toString n
  | .all rs =>
    let rs := sortRevs rs
    String.intercalate " " (toString rs.length :: rs.map showRev)

def parse : List String → Option Op
  | ["ins", now, ia, ifid, lt, ts, ttl] =>
    match now.toNat?, ia.toNat?, ifid.toNat?, lt.toNat?, ts.toNat?, ttl.toNat? with
    | some now, some ia, some ifid, some lt, some ts, some ttl =>
      some (.insert now ⟨⟨ia, ifid⟩, lt, ts, ttl⟩)
    | _, _, _, _, _, _ => none
  | ["get", now, ia, ifid] =>
    match now.toNat?, ia.toNat?, ifid.toNat? with
    | some now, some ia, some ifid => some (.get now ⟨ia, ifid⟩)
    | _, _, _ => none
  | ["del", now] => now.toNat?.map .delExp
  | ["all", now] => now.toNat?.map .getAll
  | _ => none

def handle (s : State) (ws : List String) : State × String :=
  match ws with
  | ["new"] => (empty, "ok")
  | _ =>
    match parse ws with
    | none => (s, "bad-op")
    | some op => let x := step s op; (x.1, render x.2)

end Driver.Revcache

def main : IO Unit := Driver.statefulLoop Scion.RevCache.empty Driver.Revcache.handle
