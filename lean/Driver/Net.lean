import Driver.Common
import Scion.Util.Hex
import Scion.Util.NetAes
import Scion.Model.Net
/-! Driver for the network model (engine `net`, properties C02 C03 C04 C10 C22): replays every real
router invocation (`rt`), slow-path reply construction (`scmp`) and path reversal at a host (`rev`)
through `Scion.Net.routerStep` / `scmpPrepare` / `reverseCursor`, and every combined path through
`pathOf` / `pathIfaces` (`po`), with the MAC parameter
instantiated by AES-CMAC.  Parsing and printing only. -/
namespace Driver.Net
open Scion.Net Scion.Util

abbrev P := StateT (List String) Option

def word : P String := do
  match (← get) with
  | [] => failure
  | w :: ws => set ws; pure w

def nat : P Nat := do
  match (← word).toNat? with
  | some n => pure n
  | none => failure

def bool : P Bool := do
  match (← word) with
  | "0" => pure false
  | "1" => pure true
  | _ => failure

def rep {α} (p : P α) : Nat → P (List α)
  | 0 => pure []
  | n + 1 => do
    let x ← p
    let xs ← rep p n
    pure (x :: xs)

def ltOf : Nat → LinkType
  | 1 => .core | 2 => .parent | 3 => .child | 4 => .peer | _ => .unset

def pIface : P Iface := do
  let id ← nat; let t ← nat; let up ← bool; let owner ← nat
  pure ⟨id, ltOf t, up, owner, 0, 0⟩

def pInfo : P Info := do
  let c ← bool; let p ← bool; let s ← nat; let t ← nat
  pure ⟨c, p, s, t⟩

def pHop : P Hop := do
  let i ← nat; let e ← nat; let x ← nat; let m ← word; let ia ← bool; let ea ← bool
  match unhex m with
  | some bs => pure ⟨i, e, x, beNat bs, ia, ea⟩
  | none => failure

def pFlat : P Flat := do
  let ci ← nat; let ch ← nat; let s0 ← nat; let s1 ← nat; let s2 ← nat
  let ninf ← nat
  let infos ← rep pInfo ninf
  let nh ← nat
  let hops ← rep pHop nh
  pure ⟨ci, ch, [s0, s1, s2], infos, hops⟩

def pArr : P Arrival := do
  let w ← word
  match w.toList with
  | ['h'] => pure .host
  | 's' :: r => match (String.ofList r).toNat? with
    | some k => pure (.sibling k)
    | none => failure
  | 'e' :: r => match (String.ofList r).toNat? with
    | some k => pure (.ext k)
    | none => failure
  | _ => failure

def b2s (b : Bool) : String := if b then "1" else "0"

def showFlat (f : Flat) : String :=
  let lens := match f.segLens with
    | [a, b, c] => s!"{a} {b} {c}"
    | _ => "? ? ?"
  let infos := f.infos.map fun i => s!" {b2s i.consDir} {b2s i.peer} {i.segID} {i.ts}"
  let hops := f.hops.map fun h =>
    s!" {h.cIn} {h.cEg} {h.exp} {hexOf (natBE 6 h.mac)} {b2s h.inAlert} {b2s h.egAlert}"
  s!"{f.currINF} {f.currHF} {lens} {f.infos.length}{String.join infos} {f.hops.length}{String.join hops}"

def showCursor (c : Cursor) : String := showFlat (toFlat c)

/-- the hop-field MAC: first six bytes of AES-CMAC(key, input) -/
def aesMac : MacFn := fun key inp => beNat ((Scion.NetAes.cmacList key inp).take 6)

def showOut : Out → String
  | .deliver c => s!"dlv {showCursor c}"
  | .forward e c => s!"fwd {e} {showCursor c}"
  | .slow t k e c => s!"slow {t} {k} {e} {showCursor c}"
  | .alert true e c => s!"alert in {e} {showCursor c}"
  | .alert false e c => s!"alert eg {e} {showCursor c}"
  | .drop => "drop"

def pRt : P String := do
  let key ← word
  let now ← nat; let self ← nat; let arr ← pArr; let sl ← bool; let dl ← bool
  let nifs ← nat
  let ifs ← rep pIface nifs
  let f ← pFlat
  match unhex key with
  | none => failure
  | some k =>
    match ofFlat f with
    | none => pure "drop"
    | some c => pure (showOut (routerStep aesMac ⟨k, self, ifs⟩ now arr sl dl c))

def pScmp : P String := do
  let ext ← bool
  let f ← pFlat
  match ofFlat f with
  | none => pure "none"
  | some c => match scmpPrepare c ext with
    | none => pure "none"
    | some r => pure s!"ok {showCursor r}"

def pRev : P String := do
  let f ← pFlat
  match ofFlat f with
  | none => pure "none"
  | some c => pure s!"ok {showCursor (reverseCursor c)}"

def pOptNat : P (Option Nat) := do
  let w ← word
  if w == "-" then pure none else
  match w.toNat? with
  | some n => pure (some n)
  | none => failure

def pMac : P Nat := do
  match unhex (← word) with
  | some bs => pure (beNat bs)
  | none => failure

def pPeerE : P PeerE := do
  let i ← nat; let e ← nat; let x ← nat; let m ← pMac; let pa ← nat; let pi ← nat
  pure ⟨⟨i, e, x, m⟩, pa, pi⟩

def pASE : P ASE := do
  let ia ← nat; let i ← nat; let e ← nat; let x ← nat; let m ← pMac
  let np ← nat
  let ps ← rep pPeerE np
  pure ⟨ia, ⟨i, e, x, m⟩, ps⟩

def pEdge : P Edge := do
  let down ← bool; let core ← bool; let sc ← nat; let peer ← pOptNat
  let s0 ← nat; let ts ← nat
  let n ← nat
  let es ← rep pASE n
  pure ⟨⟨s0, ts, es⟩, core, down, sc, peer⟩

/-- `pathSolution.Path`: raw path and metadata interfaces for a list of edges -/
def pPo : P String := do
  let n ← nat
  let edges ← rep pEdge n
  match pathOf edges with
  | none => pure "none"
  | some c =>
    let ifs := pathIfaces edges
    let ifsS := String.join (ifs.map fun (a, i) => s!" {a} {i}")
    pure s!"ok {showCursor c} | {ifs.length}{ifsS}"

def runP (p : P String) (ws : List String) : String :=
  match p.run ws with
  | some (s, []) => s
  | _ => "bad-op"

def handle : List String → String
  | "rt" :: ws => runP pRt ws
  | "scmp" :: ws => runP pScmp ws
  | "rev" :: ws => runP pRev ws
  | "po" :: ws => runP pPo ws
  | _ => "bad-op"

end Driver.Net

def main : IO Unit := Driver.statelessLoop Driver.Net.handle
