import Driver.Common
import Scion.Util.Hex
import Scion.Model.Seq
/-! Driver for the path-policy model (engine `pathseq`, property C47).

```
ev  <expr> | <path>*         -> <mask> <mask>     (hop-level meaning, compiled-regexp model)
acl <entry>* | <path>*       -> <mask> | panic
pol <entry>* ; <expr> | <path>*  -> <mask> | panic
expr  := none | prefix form over  cat alt opt plus star  and  h <isd> <as> <ifs>
          <isd> number (0 wildcard); <as> "-" absent, "w" wildcard, else hex of the literal's text;
          <ifs> "-" absent, e<n>, b<in>,<out>   (0 wildcard)
path  := p[<isd>.<as>.<id>[/...]]
entry := (+|-)(*|<isd>.<as>.<if0>[.<if1>])
```
-/
namespace Driver.Pathseq
open Scion.Seq Scion.Util

def strOfHex (w : String) : Option Scion.Addr.Str :=
  (unhex w).map (fun bs => bs.map (fun b => Char.ofNat b.toNat))

def numPred (n : Nat) : NumPred := if n = 0 then .wild else .lit n

def parseIfs (w : String) : Option IfPred :=
  if w == "-" then some .any
  else if w.startsWith "e" then (w.drop 1).toString.toNat?.map (fun n => .either (numPred n))
  else if w.startsWith "b" then
    match ((w.drop 1).toString.splitOn ",") with
    | [a, b] => match a.toNat?, b.toNat? with
      | some a, some b => some (.both (numPred a) (numPred b))
      | _, _ => none
    | _ => none
  else none

def parseAsWord (w : String) : Option ASPred :=
  if w == "-" then some .wild
  else if w == "w" then some .wild
  else (strOfHex w).map asPredOfText

/-- prefix-form parser; `fuel` bounds the recursion depth -/
def parseExpr : Nat → List String → Option (Expr × List String)
  | 0, _ => none
  | _ + 1, [] => none
  | f + 1, t :: ts =>
    if t == "h" then
      match ts with
      | i :: a :: s :: rest =>
        match i.toNat?, parseAsWord a, parseIfs s with
        | some i, some a, some s => some (.atom ⟨numPred i, a, s⟩, rest)
        | _, _, _ => none
      | _ => none
    else if t == "cat" || t == "alt" then
      match parseExpr f ts with
      | none => none
      | some (a, r1) =>
        match parseExpr f r1 with
        | none => none
        | some (b, r2) => some (if t == "cat" then .cat a b else .alt a b, r2)
    else if t == "opt" || t == "plus" || t == "star" then
      match parseExpr f ts with
      | none => none
      | some (a, r) => some (if t == "opt" then .opt a else if t == "plus" then .plus a else .star a, r)
    else none

def parseSeq (ts : List String) : Option (Option Expr) :=
  match ts with
  | ["none"] => some none
  | _ => match parseExpr (ts.length + 1) ts with
    | some (e, []) => some (some e)
    | _ => none

def parsePIf (w : String) : Option PIf :=
  match w.splitOn "." with
  | [a, b, c] => match a.toNat?, b.toNat?, c.toNat? with
    | some a, some b, some c => some ⟨a, b, c⟩
    | _, _, _ => none
  | _ => none

def parsePath (w : String) : Option Path :=
  if !w.startsWith "p" then none
  else
    let body := (w.drop 1).toString
    if body == "" then some [] else (body.splitOn "/").mapM parsePIf

def parseEntry (w : String) : Option AclEntry :=
  let allow := w.startsWith "+"
  if !(allow || w.startsWith "-") then none
  else
    let body := (w.drop 1).toString
    if body == "*" then some ⟨allow, none⟩
    else match (body.splitOn ".").mapM (·.toNat?) with
      | some [a, b, c] => some ⟨allow, some ⟨a, b, c, none⟩⟩
      | some [a, b, c, d] => some ⟨allow, some ⟨a, b, c, some d⟩⟩
      | _ => none

def mask (paths : List Path) (kept : Path → Bool) : String :=
  String.ofList (paths.map (fun p => if kept p then '1' else '0'))

/-- the mask of an order-preserving sub-list `r` of `paths` (greedy), or `none` -/
def maskOf : List Path → List Path → Option (List Char)
  | [], [] => some []
  | [], _ :: _ => none
  | _ :: ps, [] => (maskOf ps []).map ('0' :: ·)
  | p :: ps, q :: qs =>
    if p = q then (maskOf ps qs).map ('1' :: ·) else (maskOf ps (q :: qs)).map ('0' :: ·)

def splitAt (sep : String) (ws : List String) : List String × List String :=
  (ws.takeWhile (· != sep), (ws.dropWhile (· != sep)).drop 1)

def handle : List String → String
  | "ev" :: rest =>
    let (ex, ps) := splitAt "|" rest
    match parseSeq ex, ps.mapM parsePath with
    | some s, some paths =>
      let m1 := mask paths (seqAccept s)
      let m2 := mask paths (seqAcceptRe s)
      (if m1 == "" then "-" else m1) ++ " " ++ (if m2 == "" then "-" else m2)
    | _, _ => "bad-op"
  | "acl" :: rest =>
    let (es, ps) := splitAt "|" rest
    match es.mapM parseEntry, ps.mapM parsePath with
    | some a, some paths =>
      match aclEval a paths with
      | none => "panic"
      | some r => match maskOf paths r with
        | some m => if m.isEmpty then "-" else String.ofList m
        | none => "not-a-sublist"
    | _, _ => "bad-op"
  | "pol" :: rest =>
    let (es, rest2) := splitAt ";" rest
    let (ex, ps) := splitAt "|" rest2
    match es.mapM parseEntry, parseSeq ex, ps.mapM parsePath with
    | some a, some s, some paths =>
      match policyFilter a s paths with
      | none => "panic"
      | some r => match maskOf paths r with
        | some m => if m.isEmpty then "-" else String.ofList m
        | none => "not-a-sublist"
    | _, _, _ => "bad-op"
  | _ => "bad-op"

end Driver.Pathseq

def main : IO Unit := Driver.statelessLoop Driver.Pathseq.handle
