import Driver.Common
import Scion.Model.Pool
/-! Driver for the buffer-ownership acceptor (engine `pool`, property C14).

ops: `reset` | `hold <conn> <buf>` | `keep <conn> <buf>` | `fill <conn> <buf>` |
     `present <conn> <buf>` | `done <conn> <buf>` | `release <conn> <buf>`   → `ok` or `reject <why>`
(after a rejected event the acceptor continues from the state the event claims). -/
namespace Driver.Pool
open Scion.Pool

def force (s : ObsState) : ObsEv → ObsState
  | .hold c b => setSeen s b (.rx c)
  | .keep _ _ => s
  | .fill _ b => setSeen s b .flight
  | .present l b => setSeen s b (.tx l)
  | .done _ b => setSeen s b .flight
  | .release _ b => setSeen s b .flight

def apply (s : ObsState) (e : ObsEv) : ObsState × String :=
  match obsStep s e with
  | .ok s' => (s', "ok")
  | .error why => (force s e, "reject " ++ why)

def handle (s : ObsState) : List String → ObsState × String
  | ["reset"] => ([], "ok")
  | [op, c, b] =>
    match c.toNat?, b.toNat? with
    | some c, some b =>
      (match op with
       | "hold" => apply s (.hold c b)
       | "keep" => apply s (.keep c b)
       | "fill" => apply s (.fill c b)
       | "present" => apply s (.present c b)
       | "done" => apply s (.done c b)
       | "release" => apply s (.release c b)
       | _ => (s, "bad-op"))
    | _, _ => (s, "bad-op")
  | _ => (s, "bad-op")

end Driver.Pool

def main : IO Unit := Driver.statefulLoop ([] : Scion.Pool.ObsState) Driver.Pool.handle
