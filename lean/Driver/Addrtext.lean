import Driver.Common
import Scion.Util.Hex
import Scion.Model.Addr
/-! Driver for the address-text model (engine `addrtext`, property C46).
Texts travel as lower-case hex of their bytes (`-` = empty); byte `b` becomes `Char.ofNat b`. -/
namespace Driver.Addrtext
open Scion.Addr Scion.Util

def strOfHex (w : String) : Option Str :=
  (unhex w).map (fun bs => bs.map (fun b => Char.ofNat b.toNat))

def hexOfStr (s : Str) : String := hexOf (s.map (fun c => UInt8.ofNat c.toNat))

def errName : PErr → String
  | .syntax => "syntax"
  | .range => "range"
  | .form => "form"

def showNat (r : Except PErr Nat) : String :=
  match r with
  | .ok v => s!"ok {v}"
  | .error e => "err " ++ errName e

/-- options as the engine applies them: `WithDefaultPrefix()` iff the flag is 1, then
    `WithSeparator(s)` iff the word is `s:<hex>` (`none` = option not given) -/
def optsOf (p sep : String) : Option Opts :=
  if sep == "none" then some (mkOpts (p == "1") none)
  else if sep.startsWith "s:" then
    (strOfHex (sep.drop 2).toString).map (fun s => mkOpts (p == "1") (some s))
  else none

/-- the IP parameter: the engine supplies the string Go hands to `netip.ParseAddr` and what it
    answered (canonical text, `x` = error); any other string is not an IP literal for this op -/
def oracle (oin oout : String) : Option (IPCodec Str) :=
  match strOfHex oin with
  | none => none
  | some i =>
    if oout == "x" then some ⟨fun _ => none, id⟩
    else match strOfHex oout with
      | none => none
      | some o => some ⟨fun t => if t = i then some o else none, id⟩

def showHost : Host Str → String
  | .none => "none"
  | .ip a => "ip " ++ hexOfStr a
  | .svc s => s!"svc {s}"

def hostOf (kind x : String) : Option (Host Str) :=
  if kind == "svc" then x.toNat?.map Host.svc
  else if kind == "ip" then (strOfHex x).map Host.ip
  else if kind == "none" then some Host.none
  else none

def idCodec : IPCodec Str := ⟨fun _ => none, id⟩

def handle : List String → String
  | ["isd.f", n] => match n.toNat? with
    | some n => hexOfStr (fmtISD n) | none => "bad-op"
  | ["isd.p", t] => match strOfHex t with
    | some t => showNat (parseISD t) | none => "bad-op"
  | ["as.f", n] => match n.toNat? with
    | some n => hexOfStr (fmtAS [':'] n) | none => "bad-op"
  | ["as.p", t] => match strOfHex t with
    | some t => showNat (parseAS [':'] t) | none => "bad-op"
  | ["ia.f", n] => match n.toNat? with
    | some n => hexOfStr (fmtIA n) | none => "bad-op"
  | ["ia.p", t] => match strOfHex t with
    | some t => showNat (parseIA t) | none => "bad-op"
  | ["svc.f", n] => match n.toNat? with
    | some n => hexOfStr (fmtSVC n) | none => "bad-op"
  | ["svc.p", t] => match strOfHex t with
    | some t => showNat (parseSVC t) | none => "bad-op"
  | ["host.f", kind, x] => match hostOf kind x with
    | some h => hexOfStr (fmtHost idCodec h) | none => "bad-op"
  | ["host.p", t, oin, oout] => match strOfHex t, oracle oin oout with
    | some t, some k => (match parseHost k t with
      | .ok h => "ok " ++ showHost h
      | .error e => "err " ++ errName e)
    | _, _ => "bad-op"
  | ["addr.f", ia, kind, x] => match ia.toNat?, hostOf kind x with
    | some ia, some h => hexOfStr (fmtAddr idCodec ia h) | _, _ => "bad-op"
  | ["addr.p", t, oin, oout] => match strOfHex t, oracle oin oout with
    | some t, some k => (match parseAddr k t with
      | .ok (ia, h) => s!"ok {ia} " ++ showHost h
      | .error e => "err " ++ errName e)
    | _, _ => "bad-op"
  | ["ap.f", ia, kind, x, port] => match ia.toNat?, hostOf kind x, port.toNat? with
    | some ia, some h, some p => hexOfStr (fmtAddrPort idCodec ia h p) | _, _, _ => "bad-op"
  | ["ap.p", t, oin, oout] => match strOfHex t, oracle oin oout with
    | some t, some k => (match parseAddrPort k t with
      | .ok ((ia, h), p) => s!"ok {ia} " ++ showHost h ++ s!" {p}"
      | .error e => "err " ++ errName e)
    | _, _ => "bad-op"
  | [op, p, sep, x] =>
    match optsOf p sep with
    | none => "bad-op"
    | some o =>
      if op == "fisd.f" then match x.toNat? with
        | some n => hexOfStr (formatISD o n) | none => "bad-op"
      else if op == "fas.f" then match x.toNat? with
        | some n => hexOfStr (formatAS o n) | none => "bad-op"
      else if op == "fia.f" then match x.toNat? with
        | some n => hexOfStr (formatIA o n) | none => "bad-op"
      else if op == "fisd.p" then match strOfHex x with
        | some t => showNat (parseFormattedISD o t) | none => "bad-op"
      else if op == "fas.p" then match strOfHex x with
        | some t => showNat (parseFormattedAS o t) | none => "bad-op"
      else if op == "fia.p" then match strOfHex x with
        | some t => showNat (parseFormattedIA o t) | none => "bad-op"
      else "bad-op"
  | _ => "bad-op"

end Driver.Addrtext

def main : IO Unit := Driver.statelessLoop Driver.Addrtext.handle
