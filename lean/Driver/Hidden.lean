import Driver.Common
import Scion.Model.Hidden
import Scion.Util.StoresProto
/-! Driver for the hidden-path registry / authoritative server model (engine `hidden`, C45).
    Stateful: local ISD-AS, group configuration, one path-segment store; logical clock = number
    of op lines since `new` (`grp` lines included).

    new <local>                                             → ok
    grp <id> <owner> <writers> <readers> <registries>       → ok
    reg <group> <peer> <verifies 0|1> <segs>                → ok | err
        segs = `;`-separated id/full/ver/maxexp/first/last/type, `-` = none
    srv <groups> <dst> <peer>                               → ok <n> id/full/ver/type … | err
        (the Go errors carry no sentinel, so only accept/refuse is compared; `showRegErr`/
         `showSrvErr` name the model's reason for debugging)
    pins … | pget … | pdelexp … | pdelseg …                 (path-store ops of the `stores` protocol,
                                                             executed on the same store)
-/
namespace Driver.Hidden
open Scion.Stores Scion.Hidden Scion.Util.StoresProto

structure St where
  localIA : IA
  groups : List Group
  segs : List SegRec
  tick : Nat

def St.init : St := ⟨⟨0, 0⟩, [], [], 0⟩

def parseSeg (s : String) : Option (SegIn × Nat) :=
  match s.splitOn "/" with
  | [id, full, ver, mx, first, last, type] =>
    match ver.toNat?, mx.toNat?, parseIA first, parseIA last, type.toNat? with
    | some ver, some mx, some first, some last, some type =>
      some (⟨idOf id, idOf full, ver, mx, first, last, []⟩, type)
    | _, _, _, _, _ => none
  | _ => none

def parseSegs (s : String) : Option (List (SegIn × Nat)) :=
  if s == "-" then some [] else allSome ((s.splitOn ";").map parseSeg)

def showRegErr : RegErr → String
  | .unknownGroup => "unknown-group"
  | .notWriter => "not-writer"
  | .notRegistry => "not-registry"
  | .wrongType => "wrong-type"
  | .verify => "verify"

def showSrvErr : SrvErr → String
  | .noGroups => "no-groups"
  | .unknownGroup => "unknown-group"
  | .notAllowed => "not-allowed"
  | .notAuthoritative => "not-authoritative"

/-- a public look-up result without the `LastUpdated` column (not tracked by this engine) -/
def showPublic (e : Entry) : String :=
  s!"{showID e.id}/{showID e.full}/{e.ver}/{e.maxExp}/{e.type}/{showNats (sortNats e.groups)}"

def showServed (e : Entry) : String := s!"{showID e.id}/{showID e.full}/{e.ver}/{e.type}"

def handle (s : St) (ws : List String) : St × String :=
  match ws with
  | ["new", l] =>
    match parseIA l with
    | some l => ({ St.init with localIA := l }, "ok")
    | none => (s, "bad-op")
  | ["grp", id, owner, ws', rs, gs] =>
    match id.toNat?, parseIA owner, iaList ws', iaList rs, iaList gs with
    | some id, some owner, some ws', some rs, some gs =>
      ({ s with groups := s.groups ++ [⟨id, owner, ws', rs, gs⟩], tick := s.tick + 1 }, "ok")
    | _, _, _, _, _ => (s, "bad-op")
  | ["reg", g, peer, v, segs] =>
    match g.toNat?, parseIA peer, v.toNat?, parseSegs segs with
    | some g, some peer, some v, some segs =>
      let x := step s.groups s.localIA s.segs s.tick (.register ⟨g, peer, segs, v != 0⟩)
      ({ s with segs := x.1, tick := s.tick + 1 },
        match x.2 with
        | .registered (.ok _) => "ok"
        | .registered (.error _) => "err"
        | .served _ => "bad-op")
    | _, _, _, _ => (s, "bad-op")
  | ["srv", gs, dst, peer] =>
    match natList gs, parseIA dst, parseIA peer with
    | some gs, some dst, some peer =>
      let x := step s.groups s.localIA s.segs s.tick (.segments ⟨gs, dst, peer⟩)
      ({ s with tick := s.tick + 1 },
        match x.2 with
        | .served (.ok es) => "ok " ++ countLine (es.map showServed)
        | .served (.error _) => "err"
        | .registered _ => "bad-op")
    | _, _, _ => (s, "bad-op")
  | _ =>
    match parseP ws with
    | some op =>
      let x := pstep ⟨s.segs, []⟩ s.tick op
      ({ s with segs := x.1.segs, tick := s.tick + 1 },
        match x.2 with
        | .entries es => countLine (es.map showPublic)
        | o => renderP o)
    | none => (s, "bad-op")

end Driver.Hidden

def main : IO Unit := Driver.statefulLoop Driver.Hidden.St.init Driver.Hidden.handle
