import Driver.Common
import Scion.Model.Router
import Scion.Util.R1Aes
/-! Driver for the border-router fast-path model (engine `router`, properties C01 C05 C06 C07).
`cfg …` lines build the configuration, `pkt <now-ns> <ifid> <link> <hex>` runs
`Scion.Router.processPkt` with the hop-field MAC instantiated by a real AES-128-CMAC. -/
namespace Driver.Router
open Scion.Util Scion.Router

structure DCfg where
  ia : Nat
  key : Bytes
  ifs : List (Nat × Option Iface × LinkType)
  svcs : List Nat

def DCfg.empty : DCfg := ⟨0, [], [], []⟩

def lookup (ifs : List (Nat × Option Iface × LinkType)) (id : Nat) : Option (Option Iface × LinkType) :=
  match ifs with
  | [] => none
  | (k, l, t) :: rest => if k == id then some (l, t) else lookup rest id

def toCfg (d : DCfg) : Cfg :=
  { localIA := d.ia, key := d.key,
    ifaces := fun id => match lookup d.ifs id with
      | some (l, _) => l
      | none => none
    ltype := fun id => match lookup d.ifs id with
      | some (_, t) => t
      | none => .unset
    svcs := d.svcs }

def cmac : Mac := fun key inp => (Scion.R1Aes.cmac key.toArray inp.toArray).toList

def ltOf : Nat → LinkType
  | 1 => .core | 2 => .parent | 3 => .child | 4 => .peer | _ => .unset

def render (r : Disp × Bytes) : String :=
  match r.1 with
  | .discard => "drop"
  | .otherPath => "otherpath"
  | .slow t c p => s!"slow {t} {c} {p} {hexOf r.2}"
  | .alertIngress => s!"alert in {hexOf r.2}"
  | .alertEgress => s!"alert eg {hexOf r.2}"
  | .deliver k host port => (if k == 0 then "dlv ip " else "dlv svc ") ++ s!"{hexOf host} {port} {hexOf r.2}"
  | .forward e => s!"fwd {e} {hexOf r.2}"
  | .crash => "PANIC"

def step (d : DCfg) : List String → DCfg × String
  | ["cfg", "reset", ia, key] =>
    match ia.toNat?, unhex key with
    | some ia, some key => (⟨ia, key, [], []⟩, "ok")
    | _, _ => (d, "bad-op")
  | ["cfg", "svc", s] =>
    match s.toNat? with
    | some s => ({ d with svcs := s :: d.svcs }, "ok")
    | none => (d, "bad-op")
  | ["cfg", "if", id, scope, lt, up, link] =>
    match id.toNat?, lt.toNat?, up.toNat?, link.toNat? with
    | some id, some lt, some up, some link =>
      let mk := fun (sc : Scope) => some (⟨sc, up == 1, link⟩ : Iface)
      let l : Option (Option Iface) :=
        if scope == "int" then some (mk .internal)
        else if scope == "sib" then some (mk .sibling)
        else if scope == "ext" then some (mk .external)
        else if scope == "none" then some none
        else none
      match l with
      | some l => ({ d with ifs := (id, l, ltOf lt) :: d.ifs }, "ok")
      | none => (d, "bad-op")
    | _, _, _, _ => (d, "bad-op")
  | ["pkt", now, ifid, link, raw] =>
    match now.toNat?, ifid.toNat?, link.toNat?, unhex raw with
    | some now, some ifid, some link, some raw =>
      (d, render (processPkt (toCfg d) cmac resolveLocal now ⟨ifid, link⟩ raw))
    | _, _, _, _ => (d, "bad-op")
  | _ => (d, "bad-op")

end Driver.Router

def main : IO Unit := Driver.statefulLoop Driver.Router.DCfg.empty Driver.Router.step
