import Driver.Common
import Scion.Model.Checksum
/-! Driver for the checksum model (engine `csum`, property C20). -/
namespace Driver.Csum
open Scion.Checksum Scion.Util

def errStr : Err → String
  | .dstMissing => "err"
  | .srcMissing => "err"
  | .oddAddr => "panic"

def hdrOf (srcia dstia src dst : String) : Option PHdr :=
  match srcia.toNat?, dstia.toNat?, unhex src, unhex dst with
  | some s, some d, some sa, some da => some ⟨s, d, sa, da⟩
  | _, _, _, _ => none

def handle : List String → String
  -- computeChecksum
  | ["cs", proto, srcia, dstia, src, dst, upper] =>
    match proto.toNat?, hdrOf srcia dstia src dst, unhex upper with
    | some p, some h, some u =>
      match computeChecksum h u p with
      | .ok c => s!"ok {c}"
      | .error e => errStr e
    | _, _, _ => "bad-op"
  -- pseudoHeaderChecksum with an explicit length, then upperLayerChecksum, then foldChecksum
  | ["tot", proto, len, srcia, dstia, src, dst, upper] =>
    match proto.toNat?, len.toNat?, hdrOf srcia dstia src dst, unhex upper with
    | some p, some l, some h, some u =>
      match pseudoHeaderChecksum h l p with
      | .ok c => s!"ok {foldChecksum (upperLayerChecksum u c)}"
      | .error e => errStr e
    | _, _, _, _ => "bad-op"
  | ["ph", proto, len, srcia, dstia, src, dst] =>
    match proto.toNat?, len.toNat?, hdrOf srcia dstia src dst with
    | some p, some l, some h =>
      match pseudoHeaderChecksum h l p with
      | .ok c => s!"ok {c}"
      | .error e => errStr e
    | _, _, _ => "bad-op"
  | ["ul", csum, upper] =>
    match csum.toNat?, unhex upper with
    | some c, some u => toString (upperLayerChecksum u c)
    | _, _ => "bad-op"
  | ["fold", csum] =>
    match csum.toNat? with
    | some c => toString (foldChecksum c)
    | none => "bad-op"
  | _ => "bad-op"

end Driver.Csum

def main : IO Unit := Driver.statelessLoop Driver.Csum.handle
