import Driver.Common
import Scion.Model.DrkeySrv
/-! Driver for the DRKey service admission model (engine `drkeysrv`, property C40).
Parsing and printing only. -/
namespace Driver.Drkeysrv
open Scion.Util Scion.DrkeySrv

def parseAddr (w : String) : Option PeerAddr :=
  if w == "other" then some .other
  else match w.splitOn "." with
    | ["tcp", h] => (unhex h).map .tcp
    | _ => none

def parseAuth (w : String) : Option Auth :=
  match w.splitOn "." with
  | ["none"] => some .none
  | ["nottls"] => some .notTLS
  | ["nocert"] => some .tlsNoCert
  | ["badcert"] => some .tlsBadCert
  | ["cert", ia] => ia.toNat?.map .tlsCert
  | _ => none

/-- `nopeer` or `<addr>/<auth>` -/
def parsePeer (w : String) : Option (Option Peer) :=
  if w == "nopeer" then some none
  else match w.splitOn "/" with
    | [a, b] => match parseAddr a, parseAuth b with
      | some a, some b => some (some ⟨a, b⟩)
      | _, _ => none
    | _ => none

/-- `nil` or `<seconds>:<nanos>` -/
def parseTs (w : String) : Option Ts :=
  if w == "nil" then some none
  else match w.splitOn ":" with
    | [s, n] => match s.toInt?, n.toInt? with
      | some s, some n => some (some (s, n))
      | _, _ => none
    | _ => none

def strOfHex (h : String) : Option String :=
  (unhex h).map fun bs => String.ofList (bs.map fun b => Char.ofNat b.toNat)

/-- `4.<hex>.<proto>` or `6.<hex>.<proto>.<zonehex>` -/
def parseEntry (w : String) : Option (NAddr × Nat) :=
  match w.splitOn "." with
  | ["4", h, p] => match unhex h, p.toNat? with
    | some h, some p => some (⟨true, h, ""⟩, p)
    | _, _ => none
  | ["6", h, p, z] => match unhex h, p.toNat?, strOfHex z with
    | some h, some p, some z => some (⟨false, h, z⟩, p)
    | _, _, _ => none
  | _ => none

def parseAllowed (w : String) : Option (List (NAddr × Nat)) :=
  if w == "-" then some []
  else (w.splitOn ",").mapM parseEntry

def showL1 : Option Level1Meta → String
  | none => "deny"
  | some m => s!"call {m.proto} {m.ts.1} {m.ts.2} {m.src} {m.dst}"

def showSV : Option SVMeta → String
  | none => "deny"
  | some m => s!"call {m.proto} {m.ts.1} {m.ts.2}"

def showH : Option HostMeta → String
  | none => "deny"
  | some m => s!"call {m.proto} {m.ts.1} {m.ts.2} {m.src} {m.dst} {hexOf m.srcHost} {hexOf m.dstHost}"

def handle : List String → String
  | ["l1", loc, peer, proto, ts] =>
    match loc.toNat?, parsePeer peer, proto.toInt?, parseTs ts with
    | some loc, some peer, some proto, some ts => showL1 (level1 ⟨loc, []⟩ peer proto ts)
    | _, _, _, _ => "bad-op"
  | ["il1", loc, al, peer, proto, ts, src, dst] =>
    match loc.toNat?, parseAllowed al, parsePeer peer, proto.toInt?, parseTs ts, src.toNat?, dst.toNat? with
    | some loc, some al, some peer, some proto, some ts, some src, some dst =>
      showL1 (intraLevel1 ⟨loc, al⟩ peer proto ts src dst)
    | _, _, _, _, _, _, _ => "bad-op"
  | ["sv", loc, al, peer, proto, ts] =>
    match loc.toNat?, parseAllowed al, parsePeer peer, proto.toInt?, parseTs ts with
    | some loc, some al, some peer, some proto, some ts => showSV (secretValue ⟨loc, al⟩ peer proto ts)
    | _, _, _, _, _ => "bad-op"
  | [kind, loc, peer, proto, ts, src, dst, sh, dh, sip, dip] =>
    match loc.toNat?, parsePeer peer, proto.toInt?, parseTs ts, src.toNat?, dst.toNat? with
    | some loc, some peer, some proto, some ts, some src, some dst =>
      match unhex sh, unhex dh, unhex sip, unhex dip with
      | some sh, some dh, some sip, some dip =>
        let r : HostReq := ⟨proto, ts, src, dst, sh, dh, sip, dip⟩
        match kind with
        | "ah" => showH (asHost ⟨loc, []⟩ peer r)
        | "ha" => showH (hostAS ⟨loc, []⟩ peer r)
        | "hh" => showH (hostHost ⟨loc, []⟩ peer r)
        | _ => "bad-op"
      | _, _, _, _ => "bad-op"
    | _, _, _, _, _, _ => "bad-op"
  | _ => "bad-op"

end Driver.Drkeysrv

def main : IO Unit := Driver.statelessLoop Driver.Drkeysrv.handle
