import Driver.Common
import Scion.Util.Hex
import Scion.Model.Extend
/-! Driver for the beacon-extension model (engine `extend`, property C23).
op: `ext <ia> <mtu> <maxexp> <key-hex16> <segid> <ts-sec> <now-ns> <ingress> <egress> <peers> <ifs>
<signers> <prev>` with `-` for an empty list;
 peers = `id,id`; ifs = `id:isd.as:remoteid:mtu,…`; signers = `notBefore:notAfter,…` (seconds);
 prev = `isd.as>isd.as/in/eg/mac-hex/peerEgress+peerEgress,…` (the entries already in the segment).
The MAC parameter is instantiated with `input XOR key` (the harness plugs the same function into
the real extender as its `hash.Hash`), so the answer exposes the complete MAC input layout.
`exp <maxexp> <ts-sec> <signerNotAfter-sec>` → the hop expiry (`none` = error);
`efd <ns>` → `ExpTimeFromDuration`. -/
namespace Driver.Extend
open Scion.Extend Scion.Util

def parseIA (s : String) : Option IA :=
  match s.splitOn "." with
  | [a, b] => match a.toNat?, b.toNat? with
    | some a, some b => some (a, b)
    | _, _ => none
  | _ => none

def listOf (s : String) (sep : String) : List String := if s == "-" then [] else s.splitOn sep

def parseIf (s : String) : Option (Nat × IfInfo) :=
  match s.splitOn ":" with
  | [id, ia, rid, mtu] => match id.toNat?, parseIA ia, rid.toNat?, mtu.toNat? with
    | some id, some ia, some rid, some mtu => some (id, ⟨ia, rid, mtu⟩)
    | _, _, _, _ => none
  | _ => none

def parseSigner (s : String) : Option Signer :=
  match s.splitOn ":" with
  | [a, b] => match a.toInt?, b.toInt? with
    | some a, some b => some ⟨a * nsPerSec, b * nsPerSec⟩
    | _, _ => none
  | _ => none

def parsePrev (s : String) : Option ASEntry :=
  match s.splitOn "/" with
  | [ias, i, e, m, ps] =>
    match ias.splitOn ">" with
    | [l, n] =>
      match parseIA l, parseIA n, i.toNat?, e.toNat?, unhex m, (listOf ps "+").mapM (·.toNat?) with
      | some l, some n, some i, some e, some m, some ps =>
        some ⟨l, n, 0, 0, ⟨0, i, e, m⟩, ps.map fun pe => ⟨IA.zero, 0, 0, ⟨0, 0, pe, []⟩⟩⟩
      | _, _, _, _, _, _ => none
    | _ => none
  | _ => none

def xorMac (key : Scion.Extend.Bytes) (x : Scion.Extend.Bytes) : Scion.Extend.Bytes := List.zipWith (· ^^^ ·) x key

def iaStr (ia : IA) : String := s!"{ia.1}.{ia.2}"

def renderPeer (p : PeerEntry) : String :=
  s!"{p.hop.inIf}:{iaStr p.peer}:{p.peerIf}:{p.peerMtu}:{hexOf p.hop.mac}:{p.hop.egIf}:{p.hop.expTime}"

def render : Result → String
  | .error => "err"
  | .errorAppended _ => "err"   -- the statement does not say when the failure is noticed
  | .panic => "panic"
  | .ok e _ sg =>
    let ps := if e.peers.isEmpty then "-" else String.intercalate "," (e.peers.map renderPeer)
    s!"ok {iaStr e.loc} {e.mtu} {e.hop.expTime} {iaStr e.next} {e.ingressMtu} {e.hop.inIf} {e.hop.egIf} {hexOf e.hop.mac} {ps} {sg.notBefore / nsPerSec}:{sg.notAfter / nsPerSec}"

def handle : List String → String
  | ["ext", ia, mtu, mx, key, sid, ts, now, ing, eg, peers, ifs, sgs, prev] =>
    match parseIA ia, mtu.toNat?, mx.toNat?, unhex key, sid.toNat?, ts.toNat?, now.toInt? with
    | some ia, some mtu, some mx, some key, some sid, some ts, some now =>
      match ing.toNat?, eg.toNat?, (listOf peers ",").mapM (·.toNat?), (listOf ifs ",").mapM parseIf,
        (listOf sgs ",").mapM parseSigner, (listOf prev ",").mapM parsePrev with
      | some ing, some eg, some peers, some ifs, some sgs, some prev =>
        render (extend ⟨ia, mtu, mx, ifs, xorMac key⟩ ⟨sid, ts, prev⟩ ing eg peers sgs now)
      | _, _, _, _, _, _ => "bad-op"
    | _, _, _, _, _, _, _ => "bad-op"
  | ["exp", mx, ts, na] =>
    match mx.toNat?, ts.toInt?, na.toInt? with
    | some mx, some ts, some na =>
      match hopExpTime mx (ts * nsPerSec) (na * nsPerSec) with
      | none => "none"
      | some e => toString e
    | _, _, _ => "bad-op"
  | ["efd", d] =>
    match d.toInt? with
    | some d => match expTimeFromDuration d with
      | none => "none"
      | some e => toString e
    | none => "bad-op"
  | _ => "bad-op"

end Driver.Extend

def main : IO Unit := Driver.statelessLoop Driver.Extend.handle
