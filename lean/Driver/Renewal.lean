import Driver.Common
import Scion.Model.Renewal
import Scion.Model.ChainParse
/-! Driver for the renewal model (engine `renewal`, property C37). -/
namespace Driver.Renewal
open Scion.Chain Scion.ChainParse Scion.Renewal

def parseLookup (w : String) : Option Lookup :=
  if w == "e" then some .err else if w == "z" then some .zero else (parseTrcInfo w).map .found

/-- `<ver> <nsi> <idx|n> <typeData> <econt> <digest> <sig>` -/
def takeSig : List String → Option (SigFacts × List String)
  | v :: n :: i :: td :: ec :: dg :: sg :: ws => do
    let sdVersion ← v.toNat?
    let nSignerInfos ← n.toNat?
    let signerIdx ← if i == "n" then some none else i.toNat?.map some
    let isTypeData ← parseBool td
    let econtentOk ← parseBool ec
    let digestMatch ← parseBool dg
    let sigOk ← parseBool sg
    some ({ sdVersion, nSignerInfos, signerIdx, isTypeData, econtentOk, digestMatch, sigOk }, ws)
  | _ => none

/-- `<latest> <pred> <now> <zero> <okL> <okP>` -/
def takeTrc : List String → Option (TrcFacts × List String)
  | l :: p :: now :: z :: okl :: okp :: ws => do
    let latest ← parseLookup l
    let pred ← parseLookup p
    let now ← now.toInt?
    let zeroTime ← z.toInt?
    let okLatest ← parseBool okl
    let okPred ← parseBool okp
    some ({ latest, pred, now, zeroTime, okLatest, okPred }, ws)
  | _ => none

/-- `<parse> <ia> <sig> <key>` -/
def takeCsr : List String → Option (CsrFacts × List String)
  | p :: ia :: s :: k :: ws => do
    let parseOk ← parseBool p
    let subjectIA ← parseIA ia
    let sigOk ← parseBool s
    let keyId ← k.toNat?
    some ({ parseOk, subjectIA, sigOk, keyId }, ws)
  | _ => none

def req : List String → Option String
  | p :: c :: ws => do
    let parseOk ← parseBool p
    let certsOk ← parseBool c
    let (certs, ws) ← takeCerts ws
    let (sig, ws) ← takeSig ws
    let (trc, ws) ← takeTrc ws
    let (csr, ws) ← takeCsr ws
    if !ws.isEmpty then none else
    match verifyRequest { parseOk, certsOk, certs, sig, trc, csr } with
    | .ok _ => some "ok"
    | .error _ => some "rej"
  | _ => none

def xc : List String → Option String
  | c :: ws => do
    let certsOk ← parseBool c
    let (certs, ws) ← takeCerts ws
    if !ws.isEmpty then none else
    match extractChain certsOk certs with
    | .ok (_, _, sw) => some ("ok " ++ Driver.boolStr sw)
    | .error _ => some "rej"
  | _ => none

def vs (ws : List String) : Option String := do
  let (certs, ws) ← takeCerts ws
  let (sig, ws) ← takeSig ws
  let (trc, ws) ← takeTrc ws
  if !ws.isEmpty then none else
  match certs with
  | [some a, _] =>
    match verifySignature a sig trc with
    | .ok _ => some "ok"
    | .error _ => some "rej"
  | _ => none

def renderExt : Option Bool → String
  | none => "n"
  | some b => Driver.boolStr b

def renderIA : IARes → String
  | .notFound => "n"
  | .malformed => "e"
  | .ok ia => toString ia

def renderList (l : List Nat) : String :=
  if l.isEmpty then "-" else ",".intercalate (l.map toString)

/-- the text form `harness/pki2.Facts` produces -/
def renderCert (c : Cert) : String :=
  ":".intercalate ["c", toString c.version, Driver.boolStr c.hasSerial, toString c.sigAlg,
    Driver.boolStr c.skidEmpty, toString c.akid, renderExt c.skidExt, renderExt c.akidExt,
    renderExt c.bcExt, toString c.keyUsage, renderList c.eku, renderList c.ueku,
    Driver.boolStr c.bcValid, Driver.boolStr c.isCA, toString c.maxPathLen, renderIA c.issuerIA,
    renderIA c.subjectIA, toString c.notBefore, toString c.notAfter, toString c.keyId]

/-- `mk <C ca> <validity> <now> <csrIA> <csrKey> <skidOk> <createOk> <sigAlg> <caSkidEmpty> <caSkidIsNew>` -/
def mk : List String → Option String
  | [ca, v, now, ia, k, so, co, alg, se, sn] => do
    let ca ← parseCert ca
    let ca ← ca
    let validity ← v.toInt?
    let now ← now.toInt?
    let csrSubjectIA ← parseIA ia
    let csrKeyId ← k.toNat?
    let skidOk ← parseBool so
    let createOk ← parseBool co
    let sigAlg ← alg.toNat?
    let caSkidEmpty ← parseBool se
    let caSkidIsNew ← parseBool sn
    match createChain { ca, validity, now, csrSubjectIA, csrKeyId, skidOk, createOk, sigAlg,
                        caSkidEmpty, caSkidIsNew } with
    | .ok (a, _) => some (renderCert a)
    | .error _ => some "err"
  | _ => none

def handle : List String → String
  | "req" :: ws => (req ws).getD "bad-op"
  | "xc" :: ws => (xc ws).getD "bad-op"
  | "vs" :: ws => (vs ws).getD "bad-op"
  | "mk" :: ws => (mk ws).getD "bad-op"
  | _ => "bad-op"

end Driver.Renewal

def main : IO Unit := Driver.statelessLoop Driver.Renewal.handle
