import Driver.Common
import Scion.Model.Pktcls
import Scion.Model.PktclsSyntax
import Scion.Util.GwCodec
/-! Driver for the traffic-class model (engine `pktcls`, property C43). -/
namespace Driver.Pktcls
open Scion.Pktcls Scion.Util Scion.Util.GwCodec

def decPkts : Nat → List String → Option (List Pkt × List String)
  | 0, ws => some ([], ws)
  | n + 1, ws => do
    let (p, r) ← decPkt ws
    let (ps, r') ← decPkts n r
    pure (p :: ps, r')

def bits (e : Cond) (ps : List Pkt) : String :=
  String.ofList (ps.map fun p => if eval e p then '1' else '0') ++ "."

def hexText (cs : List Char) : String := hexOf (String.ofList cs).toUTF8.toList

def handle : List String → String
  | ["pn", n] =>
    match n.toNat? with
    | some n => let s := protoName n; if s.isEmpty then "-" else String.ofList s
    | none => "bad-op"
  | "tx" :: h :: n :: ws =>
    match unhex h, n.toNat? with
    | some bs, some n =>
      match decPkts n ws with
      | some (ps, []) =>
        let text := (String.fromUTF8? (ByteArray.mk bs.toArray)).getD ""
        match parse (lex text.toList) with
        | none => "err"
        | some e =>
          let out := render (print e)
          let again := match parse (lex out) with
            | some e' => encCond e'
            | none => "none"
          s!"ok [{encCond e}] {hexText out} [{again}] {bits e ps}"
      | _ => "bad-op"
    | _, _ => "bad-op"
  | "ev" :: n :: ws =>
    match n.toNat? with
    | some n =>
      match decPkts n ws with
      | some (ps, r) =>
        match decCond r.length r with
        | some (e, []) => bits e ps
        | _ => "bad-op"
      | none => "bad-op"
    | none => "bad-op"
  | _ => "bad-op"

end Driver.Pktcls

def main : IO Unit := Driver.statelessLoop Driver.Pktcls.handle
