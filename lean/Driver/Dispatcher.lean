import Driver.Common
import Scion.Model.Dispatcher
import Scion.Util.WireText
/-! Driver for the shim-dispatcher decision model (engine `dispatcher`, property C44). -/
namespace Driver.Dispatcher
open Scion.Dispatcher Scion.Wire Scion.Util Scion Scion.WireText

def parseSvc (s : String) : Option SvcEntry :=
  match s.splitOn ":" with
  | [ia, svc, ip, port] =>
    match ia.toNat?, svc.toNat?, unhex ip, port.toNat? with
    | some ia, some svc, some ip, some port => some ⟨ia, svc, ip, port⟩
    | _, _, _, _ => none
  | _ => none

def outStr : Out → String
  | .drop => "drop"
  | .fwd ip port => s!"fwd {hexOf ip} {port}"
  | .reply h typ _ => s!"reply {typ} {hdrStr h}"

def step (cfg : Cfg) : List String → Cfg × String
  -- cfg <isDispatcher> <ia:svc:iphex:port>…
  | "cfg" :: d :: svcs =>
    match svcs.mapM parseSvc with
    | some l => (⟨d == "1", l⟩, "ok")
    | none => (cfg, "bad-op")
  -- pkt <underlay-hex> <datagram-hex>
  | ["pkt", ul, hex] =>
    match unhex ul, unhex hex with
    | some ul, some data => (cfg, outStr (process cfg data ul))
    | _, _ => (cfg, "bad-op")
  | _ => (cfg, "bad-op")

end Driver.Dispatcher

def main : IO Unit := Driver.statefulLoop (⟨true, []⟩ : Scion.Dispatcher.Cfg) Driver.Dispatcher.step
