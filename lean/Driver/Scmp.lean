import Driver.Common
import Scion.Model.Scmp
import Scion.Model.ScmpBytes
/-! Driver for the slow-path / SCMP model (engine `scmp`, properties C08 and C09).
Only parses, calls `Scion.Scmp` and prints. -/
namespace Driver.Scmp
open Scion.Util Scion.PathMeta Scion.Scmp

def b2s (b : Bool) : String := if b then "1" else "0"

def parseBool (s : String) : Option Bool :=
  if s == "1" then some true else if s == "0" then some false else none

def parseScope (s : String) : Option Scope :=
  if s == "i" then some .internal else if s == "s" then some .sibling
  else if s == "e" then some .ext else none

def parseInfo (s : String) : Option InfoF :=
  match s.splitOn "." with
  | [c, p, sid, ts] =>
    match parseBool c, parseBool p, sid.toNat?, ts.toNat? with
    | some c, some p, some sid, some ts => some ⟨c, p, sid, ts⟩
    | _, _, _, _ => none
  | _ => none

def parseInfos (s : String) : Option (List InfoF) :=
  if s == "-" then some [] else (s.splitOn ",").mapM parseInfo

def chunks12 : Nat → Bytes → List Bytes
  | 0, _ => []
  | fuel+1, bs => if bs.isEmpty then [] else bs.take 12 :: chunks12 fuel (bs.drop 12)

def parseL4 (s : String) : Option L4 :=
  if s == "o" then some .other
  else if s == "s" then some .scmpShort
  else match s.splitOn "." with
    | ["m", t, c, p] =>
      match t.toNat?, c.toNat?, p.toNat? with
      | some t, some c, some p => some (.scmp t c p)
      | _, _, _ => none
    | _ => none

def renderInfo (i : InfoF) : String := s!"{b2s i.consDir}.{b2s i.peer}.{i.segID}.{i.ts}"

def renderInfos (l : List InfoF) : String :=
  if l.isEmpty then "-" else ",".intercalate (l.map renderInfo)

def renderNats (l : List Nat) : String :=
  if l.isEmpty then "-" else ".".intercalate (l.map toString)

def renderReply (r : Reply) : String :=
  s!"emit {r.total} {r.hdrLenField} {r.payloadLen} {r.nextHdr} {r.pathType} {r.flowID} {r.tc} " ++
  s!"{r.dstIA} {r.srcIA} {r.dstType} {r.srcType} {hexOf r.rawDst} {hexOf r.rawSrc} " ++
  s!"{r.numINF} {r.numHops} {encode r.pm} {renderInfos r.infos} {hexOf r.hops.flatten} " ++
  s!"{r.scmpType} {r.scmpCode} {renderNats r.info} {b2s r.auth} {b2s r.isError} " ++
  s!"{r.quote.length} {b2s r.front} {r.off}"

def renderOutcome : Outcome → String
  | .emit r => renderReply r
  | .drop _ => "drop"
  | .panic w => "panic " ++ w

def intArg (s : String) : Option Int :=
  if s.startsWith "-" then (s.drop 1).toNat?.map (fun n => - (Int.ofNat n))
  else s.toNat?.map Int.ofNat

def handleSp (a : List String) : String :=
  match a with
  | [scope, auth, uhead, headroom, localia, hosttype, rawhost, len, ptype, flow, tc, srcia,
     srctype, rawsrc, pmw, infos, hops, l4, trid, trseq, reqauth, sptype, code, ptr, ingress,
     egress] =>
    match parseScope scope, parseBool auth, uhead.toNat?, headroom.toNat?, localia.toNat?,
          hosttype.toNat?, unhex rawhost, len.toNat?, ptype.toNat? with
    | some scope, some auth, some uhead, some headroom, some localia, some hosttype, some rawhost,
      some len, some ptype =>
      match flow.toNat?, tc.toNat?, srcia.toNat?, srctype.toNat?, unhex rawsrc, pmw.toNat?,
            parseInfos infos, unhex hops, parseL4 l4 with
      | some flow, some tc, some srcia, some srctype, some rawsrc, some pmw, some infos,
        some hops, some l4 =>
        match trid.toNat?, trseq.toNat?, parseBool reqauth, intArg sptype, code.toNat?,
              ptr.toNat?, ingress.toNat?, egress.toNat? with
        | some trid, some trseq, some reqauth, some sptype, some code, some ptr, some ingress,
          some egress =>
          let o : Offender := {
            raw := List.replicate len 0, pathType := ptype, flowID := flow, tc := tc,
            srcIA := srcia, srcType := srctype, rawSrc := rawsrc, pmWord := pmw, infos := infos,
            hops := chunks12 (hops.length + 1) hops, l4 := l4, trID := trid, trSeq := trseq,
            reqAuthValid := reqauth }
          let cfg : Cfg := ⟨localia, hosttype, rawhost, auth, uhead⟩
          let rq : Request := ⟨sptype, code, ptr, ingress, egress⟩
          renderOutcome (processPacket cfg scope headroom o rq)
        | _, _, _, _, _, _, _, _ => "bad-op"
      | _, _, _, _, _, _, _, _, _ => "bad-op"
    | _, _, _, _, _, _, _, _, _ => "bad-op"
  | _ => "bad-op"

def parseNats (s : String) : Option (List Nat) :=
  if s == "-" then some [] else (s.splitOn ".").mapM (·.toNat?)

def blankReply : Reply :=
  { total := 0, hdrLenField := 0, payloadLen := 0, nextHdr := l4E2E, pathType := 1, flowID := 0, tc := 0,
    dstIA := 0, srcIA := 0, dstType := 0, srcType := 0, rawDst := [], rawSrc := [], numINF := 0,
    numHops := 0, pm := ⟨0, 0, 0, 0, 0⟩, infos := [], hops := [], scmpType := 0, scmpCode := 0, info := [],
    auth := true, isError := true, quote := [], front := true, off := 0 }

/-- `ck srcia dstia rawsrc rawdst type code info quote` → checksum of the SCMP message -/
def handleCk : List String → String
  | [srcia, dstia, rawsrc, rawdst, t, c, info, quote] =>
    match srcia.toNat?, dstia.toNat?, unhex rawsrc, unhex rawdst, t.toNat?, c.toNat?, parseNats info,
          unhex quote with
    | some srcia, some dstia, some rawsrc, some rawdst, some t, some c, some info, some quote =>
      let r := { blankReply with srcIA := srcia, dstIA := dstia, rawSrc := rawsrc, rawDst := rawdst,
                                 scmpType := t, scmpCode := c, info := info, quote := quote }
      match scmpChecksum r with
      | .ok v => toString v
      | .error _ => "err"
    | _, _, _, _, _, _, _, _ => "bad-op"
  | _ => "bad-op"

/-- `au tc flow dstt srct dstia srcia rawdst rawsrc meta infos hops ts msg` → length and FNV-64 of
the authenticator input -/
def handleAu : List String → String
  | [tc, flow, dstt, srct, dstia, srcia, rawdst, rawsrc, pmw, infos, hops, ts, msg] =>
    match tc.toNat?, flow.toNat?, dstt.toNat?, srct.toNat?, dstia.toNat?, srcia.toNat?, unhex rawdst,
          unhex rawsrc, pmw.toNat? with
    | some tc, some flow, some dstt, some srct, some dstia, some srcia, some rawdst, some rawsrc,
      some pmw =>
      match parseInfos infos, unhex hops, ts.toNat?, unhex msg with
      | some infos, some hops, some ts, some msg =>
        let r := { blankReply with tc := tc, flowID := flow, dstType := dstt, srcType := srct,
                                   dstIA := dstia, srcIA := srcia, rawDst := rawdst, rawSrc := rawsrc,
                                   pm := decode pmw, infos := infos,
                                   hops := chunks12 (hops.length + 1) hops }
        match Scion.Spao.macInput (replyAuthIn r ts msg) with
        | .ok inp => s!"{inp.length} {fnv64 inp}"
        | .error _ => "err"
      | _, _, _, _ => "bad-op"
    | _, _, _, _, _, _, _, _, _ => "bad-op"
  | _ => "bad-op"

def parseCause (s : String) : Option Cause :=
  match s with
  | "pathExpired" => some .pathExpired
  | "ingressMismatch" => some .ingressMismatch
  | "badPktLen" => some .badPktLen
  | "invalidSrcIA" => some .invalidSrcIA
  | "invalidDstIA" => some .invalidDstIA
  | "invalidSrcHost" => some .invalidSrcHost
  | "badMac" => some .badMac
  | "noSvcBackend" => some .noSvcBackend
  | "invalidDstHost" => some .invalidDstHost
  | "unknownEgress" => some .unknownEgress
  | "invalidPath" => some .invalidPath
  | "invalidSegChange" => some .invalidSegChange
  | "extIfDown" => some .extIfDown
  | "intConnDown" => some .intConnDown
  | _ => none

def handle : List String → String
  | "sp" :: rest => handleSp rest
  | "ck" :: rest => handleCk rest
  | "au" :: rest => handleAu rest
  | ["hs", t] => match t.toNat? with
    | some t => toString (scmpHeaderSize t)
    | none => "bad-op"
  | ["ib", t] => match t.toNat? with
    | some t => toString (infoBlockLen t)
    | none => "bad-op"
  | ["al", t] => match t.toNat? with
    | some t => s!"{addrTypeLen t} {b2s (addrParsable t)}"
    | none => "bad-op"
  | ["pid", n, seed, d] => match n.toNat?, seed.toNat?, unhex d with
    | some n, some seed, some d =>
      match computeProcID d n seed with
      | .reject => "no"
      | .ok id => s!"ok {id}"
      | .panic => "panic"
    | _, _, _ => "bad-op"
  | ["stun", d] => match unhex d with
    | some d =>
      match stunParse d with
      | .notStun => "notstun"
      | .notBinding => "notbinding"
      | .malformed => "malformed"
      | .noFingerprint => "nofp"
      | .crc n => s!"crc {n}"
      | .panic => "panic"
    | none => "bad-op"
  | ["cz", c, cd, ah, ninf, ci, ch, ep] =>
    match parseCause c, parseBool cd, ah.toNat?, ninf.toNat?, ci.toNat?, ch.toNat?, parseBool ep with
    | some c, some cd, some ah, some ninf, some ci, some ch, some ep =>
      let (t, code, k) := causeTable c cd
      s!"{t} {code} {pointerOf k ah ninf ci ch ep}"
    | _, _, _, _, _, _, _ => "bad-op"
  | _ => "bad-op"

end Driver.Scmp

def main : IO Unit := Driver.statelessLoop Driver.Scmp.handle
