import Driver.Common
import Scion.Model.GwFrames
/-! Driver for the gateway framing model (engine `gwframes`, property C41).  Stateful: one
encoder (`new`, `w`, `close`, `r`) and numbered receivers (`d <wid> …`, `rel <wid>`). -/
namespace Driver.Gwframes
open Scion.GwFrames Scion.Util

structure St where
  mtu : Nat
  epoch : Nat
  enc : EncSt
  queue : List Bytes
  closed : Bool
  workers : List (Nat × Worker)

def init : St := { mtu := 1500, epoch := 0, enc := ⟨0, []⟩, queue := [], closed := false, workers := [] }

def getW (ws : List (Nat × Worker)) (id : Nat) : Worker :=
  match ws with
  | [] => []
  | (k, w) :: r => if k = id then w else getW r id

def setW (ws : List (Nat × Worker)) (id : Nat) (w : Worker) : List (Nat × Worker) :=
  match ws with
  | [] => [(id, w)]
  | (k, w') :: r => if k = id then (k, w) :: r else (k, w') :: setW r id w

def step (st : St) : List String → St × String
  | ["new", mtu, epoch] =>
    match mtu.toNat?, epoch.toNat? with
    | some m, some e => ({ st with mtu := m, epoch := e, enc := ⟨0, []⟩, queue := [], closed := false }, "ok")
    | _, _ => (st, "bad-op")
  | ["w", h] =>
    match unhex h with
    | some p => if st.closed then (st, "-1") else ({ st with queue := st.queue ++ [p] }, "1")
    | none => (st, "bad-op")
  | ["close"] => ({ st with closed := true }, "ok")
  | ["r"] =>
    -- everything written so far is available; nothing arrives during the call
    match readFrame st.mtu st.epoch st.enc st.queue [] with
    | .nothing enc' _ =>
      if st.closed then ({ st with enc := enc', queue := [] }, "nil") else (st, "block")
    | .frame f enc' q' _ =>
      ({ st with enc := enc', queue := q' }, s!"f {f.index} {f.epoch} {f.seq} {hexOf f.payload} {enc'.res.length}")
  | ["d", wid, idx, ep, seq, h] =>
    match wid.toNat?, idx.toNat?, ep.toNat?, seq.toNat?, unhex h with
    | some wid, some idx, some ep, some seq, some pl =>
      let w := getW st.workers wid
      let (w', out) := processFrame w ⟨idx, ep, seq, pl⟩
      ({ st with workers := setW st.workers wid w' },
        s!"{out.length}" ++ String.join (out.map fun p => " " ++ hexOf p) ++ s!" | {(getRlist w' ep).length}")
    | _, _, _, _, _ => (st, "bad-op")
  | ["rel", wid] =>
    match wid.toNat? with
    | some wid => ({ st with workers := setW st.workers wid [] }, "ok")
    | none => (st, "bad-op")
  | _ => (st, "bad-op")

end Driver.Gwframes

def main : IO Unit := Driver.statefulLoop Driver.Gwframes.init Driver.Gwframes.step
