import Driver.Common
import Scion.Util.Hex
import Scion.Model.Resolve
import Scion.Model.Plumb
/-! Driver for the router-configuration models (engine `rcfg`, properties C11 and C17).
Only parsing and printing; all logic is in `Scion.Model.Resolve` / `Scion.Model.Plumb`. -/
namespace Driver.Rcfg
open Scion.Util Scion.Resolve

def optNat (s : String) : Option (Option Nat) :=
  if s == "-" then some none else (s.toNat?).map some

def parseCall (tok : String) : Option Call :=
  match tok.splitOn ":" with
  | ["P", s, e] => match s.toNat?, e.toNat? with
    | some s, some e => some (.setPortRange s e)
    | _, _ => none
  | ["I"] => some .addInternal
  | ["E"] => some .addExternal
  | ["E2"] => some .addExternal
  | ["N"] => some .addSibling
  | ["N2"] => some .addSibling
  | ["K"] => some .setKey
  | ["A", v, ip, p] => match v.toNat?, unhex ip, p.toNat? with
    | some v, some ip, some p => some (.addSvc v ip p)
    | _, _, _ => none
  | ["D", v, ip, p] => match v.toNat?, unhex ip, p.toNat? with
    | some v, some ip, some p => some (.delSvc v ip p)
    | _, _, _ => none
  | _ => none

def parseCalls (s : String) : Option (List Call) :=
  if s == "-" then some [] else (s.splitOn ",").mapM parseCall

def parseDst (s : String) : Option Dst :=
  match s.splitOn ":" with
  | ["ip", h] => (unhex h).map .ip
  | ["s", v] => v.toNat?.map .svc
  | ["x"] => some .bad
  | _ => none

def parseQuote (s : String) : Option Quote :=
  match s.splitOn ":" with
  | ["-"] => some .other
  | ["u", p] => p.toNat?.map .udp
  | ["m", t, "-"] => t.toNat?.map (fun t => .scmp t none)
  | ["m", t, i] => match t.toNat?, i.toNat? with
    | some t, some i => some (.scmp t (some i))
    | _, _ => none
  | _ => none

def showUAddr (a : UAddr) : String := s!"{hexOf a.1}:{a.2}"

def showRange (r : Range) : String := s!"{r.start} {r.stop} {r.redirect}"

def mkCfg (ovs ove calls : String) : Option Cfg :=
  match optNat ovs, optNat ove, parseCalls calls with
  | some a, some b, some cs => some (run (Cfg.init a b) cs)
  | _, _, _ => none

def parseInt (s : String) : Option Int :=
  if s.startsWith "-" then (s.drop 1).toNat?.map (fun n => - (n : Int)) else s.toNat?.map (fun n => (n : Int))

def showOptInt : Option Int → String
  | none => "-"
  | some i => toString i

open Scion.Plumb in
def handlePlumb (site open_ b r s : String) : String :=
  let site? : Option Site := match site with
    | "make" => some .makeDataPlane | "ext" => some .addExternalInterface
    | "nh" => some .addNextHop | _ => none
  let open? : Option OpenSite := match open_ with
    | "int" => some .internalLink | "conn" => some .connectedLink | _ => none
  match site?, open?, parseInt b, parseInt r, parseInt s with
  | some st, some o, some b, some r, some s =>
    let c := plumb st o ⟨b, r, s⟩
    s!"{c.receiveBufferSize} {c.sendBufferSize}"
  | _, _, _, _, _ => "bad-op"

def handle : List String → String
  | ["vr", h] =>
    match unhex h with
    | some bs =>
      match validatePortRange (bs.map (fun b => Char.ofNat b.toNat)) with
      | some (s, e) => s!"ok {s} {e}"
      | none => "err"
    | none => "bad-op"
  | ["st", ovs, ove, calls] =>
    match mkCfg ovs ove calls with
    | some c =>
      s!"dp {c.dpStart} {c.dpStop} prov {showRange c.prov} link " ++
        (match c.link with | some r => showRange r | none => "none")
    | none => "bad-op"
  | ["rs", ovs, ove, calls, dst, proto, pld, q] =>
    match mkCfg ovs ove calls, parseDst dst, proto.toNat?, unhex pld, parseQuote q with
    | some c, some d, some pr, some pl, some q =>
      match resolveLocalDst c d pr pl q with
      | .ok as => "ok " ++ ",".intercalate ((canon as).map showUAddr)
      | .error e => e.str
    | _, _, _, _, _ => "bad-op"
  | ["fp", ovs, ove, calls, dst, proto, pld, q] =>
    -- the same through the fast path: `resolveInbound` folds the three destination-address
    -- refusals into one SCMP parameter problem
    match mkCfg ovs ove calls, parseDst dst, proto.toNat?, unhex pld, parseQuote q with
    | some c, some d, some pr, some pl, some q =>
      match resolveLocalDst c d pr pl q with
      | .ok as => "ok " ++ ",".intercalate ((canon as).map showUAddr)
      | .error .dstAddr => "e:dstparam"
      | .error .v4mapped => "e:dstparam"
      | .error .unspec => "e:dstparam"
      | .error e => e.str
    | _, _, _, _, _ => "bad-op"
  | ["pl", site, open_, b, r, s] => handlePlumb site open_ b r s
  | ["so", r, s] =>
    -- what `initConnUDP` asks the kernel for, given `conn.Config{ReceiveBufferSize: r, SendBufferSize: s}`
    match parseInt r, parseInt s with
    | some r, some s =>
      let so := Scion.Plumb.sockOpts { receiveBufferSize := r, sendBufferSize := s }
      s!"{showOptInt so.soRcvBuf} {showOptInt so.soSndBuf}"
    | _, _ => "bad-op"
  | _ => "bad-op"

end Driver.Rcfg

def main : IO Unit := Driver.statelessLoop Driver.Rcfg.handle
