import Driver.Common
import Scion.Model.Select
/-! Driver for the beacon-selection model (engine `bselect`, property C26).
op: `sel <k> <beacon>*` with `<beacon>` = `<id>=<ia>.<egress>,<ia>.<egress>,…` (`<id>=` for a
beacon without entries); `k` may be negative.  Answer: `ok <id>*` or `panic`. -/
namespace Driver.Bselect
open Scion.Select

def parseLink (s : String) : Option Link :=
  match s.splitOn "." with
  | [a, b] => match a.toNat?, b.toNat? with
    | some a, some b => some (a, b)
    | _, _ => none
  | _ => none

def parseBeacon (s : String) : Option Beacon :=
  match s.splitOn "=" with
  | [i, ls] =>
    match i.toNat? with
    | none => none
    | some i =>
      if ls == "" then some ⟨i, []⟩
      else (ls.splitOn ",").mapM parseLink |>.map fun l => ⟨i, l⟩
  | _ => none

def render : Option (List Beacon) → String
  | none => "panic"
  | some r => String.intercalate " " ("ok" :: r.map fun b => toString b.inIf)

def handle : List String → String
  | "sel" :: k :: bs =>
    match k.toInt?, bs.mapM parseBeacon with
    | some k, some bs => render (select k bs)
    | _, _ => "bad-op"
  | _ => "bad-op"

end Driver.Bselect

def main : IO Unit := Driver.statelessLoop Driver.Bselect.handle
