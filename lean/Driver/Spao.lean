import Driver.Common
import Scion.Model.Spao
import Scion.Util.WireText
/-! Driver for the SPAO authenticated-data model (engine `spao`, property C21). -/
namespace Driver.Spao
open Scion.Spao Scion.Wire Scion.Util Scion Scion.WireText

def handle : List String → String
  -- auth <spi> <alg> <ts> <pldtype> <pld-hex> <header value dump…>  →  authenticated data (hex)
  | "auth" :: spi :: alg :: ts :: pt :: pld :: rest =>
    match spi.toNat?, alg.toNat?, ts.toNat?, pt.toNat?, unhex pld, parseHdr rest with
    | some spi, some alg, some ts, some pt, some pld, some h =>
      match authData ⟨h, spi, alg, ts, pt, pld⟩ with
      | .ok d => hexOf d
      | .error _ => "err"
    | _, _, _, _, _, _ => "bad-op"
  -- upper <nextHdr> <payload-hex>  →  upper-layer protocol and length behind the extension headers
  | ["upper", nh, hex] =>
    match nh.toNat?, unhex hex with
    | some nh, some data =>
      match upperLayer nh data with
      | some (t, pl) => s!"ok {t} {pl.length}"
      | none => "none"
    | _, _ => "bad-op"
  | _ => "bad-op"

end Driver.Spao

def main : IO Unit := Driver.statelessLoop Driver.Spao.handle
