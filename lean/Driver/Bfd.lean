import Driver.Common
import Scion.Model.Bfd
/-! Driver for the BFD model (engine `bfd`, property C16).

ops:
* `consts`                    → numeric values of the state and event constants
* `tr <state> <event>`        → next state of `transition`, `panic` outside the defined table
* `disc <13 fields>`          → `1` if `shouldDiscard`, else `0`
* `jit <interval ns> <detect mult> <pct>` → `computeInterval` with a generator returning pct
* `jitconsts`                 → jitter constants
* `new`                       → a session starts running (answers its state: 1 = Down)
* `recv <r> <obs>` | `chg <obs>` | `send <obs>` | `fin <obs>`
                              → the local state the model expects at that callback, or
                                `reject <why>`; `<obs>` (what the implementation showed) is only
                                used to resynchronise after a mismatch. -/
namespace Driver.Bfd
open Scion.Bfd

def b (s : String) : Option Bool := match s with | "0" => some false | "1" => some true | _ => none

def obsOp (o : Obs) (e : ObsEv) (obs : String) : Obs × String :=
  match o.step e with
  | .ok (o', exp) =>
    -- after a mismatch continue from what the implementation shows
    let o'' := match obs.toNat? >>= St.ofNat? with
      | some s => if s != exp then
          (match e with
           | .recv r => ⟨s, some (r, false)⟩
           | _ => ⟨s, none⟩)
        else o'
      | none => o'
    (o'', toString exp.toNat)
  | .error why =>
    let o' : Obs := match obs.toNat? >>= St.ofNat? with
      | some s => (match e with
          | .recv r => ⟨s, some (r, false)⟩
          | _ => ⟨s, none⟩)
      | none => ⟨o.cur, none⟩
    (o', "reject " ++ why)

def handle (o : Obs) : List String → Obs × String
  | ["consts"] =>
    (o, " ".intercalate ((St.all.map fun s => toString s.toNat) ++ (Ev.all.map fun e => toString e.toNat)))
  | ["tr", s, e] =>
    match s.toNat?, e.toNat? with
    | some s, some e =>
      (match St.ofNat? s, Ev.ofNat? e with
       | some s, some e => (o, toString (transition s e).toNat)
       | _, _ => (o, "panic"))
    | _, _ => (o, "bad-op")
  | ["disc", ver, auth, len, mult, mp, my, your, st, aht, poll, fin, echo, dem] =>
    match ver.toNat?, b auth, len.toNat?, mult.toNat?, b mp, my.toNat?, your.toNat?,
          st.toNat? >>= St.ofNat?, b aht, b poll, b fin, echo.toNat?, b dem with
    | some ver, some auth, some len, some mult, some mp, some my, some your, some st, some aht,
      some poll, some fin, some echo, some dem =>
      (o, Driver.boolStr (shouldDiscard ⟨ver, auth, len, mult, mp, my, your, st, aht, poll, fin, echo, dem⟩))
    | _, _, _, _, _, _, _, _, _, _, _, _, _ => (o, "bad-op")
  | ["jit", iv, mult, pct] =>
    match iv.toNat?, mult.toNat?, pct.toNat? with
    | some iv, some mult, some pct =>
      (match computeInterval iv mult pct with
       | some d => (o, toString d)
       | none => (o, "panic"))
    | _, _, _ => (o, "bad-op")
  | ["jitconsts"] => (o, s!"{minJitter} {minJitterDetectMult1} {maxJitter}")
  | ["new"] => (Obs.init, toString Obs.init.cur.toNat)
  | ["recv", r, obs] =>
    match r.toNat? >>= St.ofNat? with
    | some r => obsOp o (.recv r) obs
    | none => (o, "bad-op")
  | ["chg", obs] => obsOp o .chg obs
  | ["send", obs] => obsOp o .send obs
  | ["fin", obs] => obsOp o .fin obs
  | _ => (o, "bad-op")

end Driver.Bfd

def main : IO Unit := Driver.statefulLoop Scion.Bfd.Obs.init Driver.Bfd.handle
