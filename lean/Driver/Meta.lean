import Driver.Common
import Scion.Model.PathMeta
/-! Driver for the path-meta model (engine `meta`, property C19). -/
namespace Driver.Meta
open Scion.PathMeta

structure Ans where
  numINF : Nat
  numHops : Nat
  idx : Nat
  flags : Nat     -- match, xover, fhax, first, penult, last (bit 5..0)
  incOk : Bool
  incVal : Nat
  revOk : Bool
  revVal : Nat

def b2n (b : Bool) : Nat := if b then 1 else 0

def answer (w : Nat) : Option Ans :=
  let m := decode w
  match baseDecode m with
  | none => none
  | some b =>
    let flags := b2n (currINFMatchesCurrHF b) * 32 + b2n (isXover b) * 16 +
      b2n (isFirstHopAfterXover b) * 8 + b2n (isFirstHop b) * 4 + b2n (isPenultimateHop b) * 2 +
      b2n (isLastHop b)
    let (incOk, incVal) := match incPath b with
      | .ok b' => (true, encode b'.pm)
      | .error e => (false, e.pm.currHF)
    let (revOk, revVal) := match reverseMeta b with
      | some r => (true, encode r.pm)
      | none => (false, 0)
    some ⟨b.numINF, b.numHops, infIdx b.pm b.pm.currHF, flags, incOk, incVal, revOk, revVal⟩

def render (a : Option Ans) : String :=
  match a with
  | none => "rej"
  | some a =>
    s!"acc {a.numINF} {a.numHops} {a.idx} {a.flags} " ++
    (if a.incOk then s!"ok:{a.incVal}" else s!"err:{a.incVal}") ++ " " ++
    (if a.revOk then s!"{a.revVal}" else "none")

def mix (h : UInt64) (v : Nat) : UInt64 := (h ^^^ UInt64.ofNat v) * 0x100000001b3

def digestOne (h : UInt64) (w : Nat) : UInt64 :=
  match answer w with
  | none => mix h 0
  | some a =>
    let h := mix h 1
    let h := mix h (a.numINF * 1000000 + a.numHops * 10000 + a.idx * 100 + a.flags)
    let h := mix h (b2n a.incOk * 2^33 + a.incVal)
    mix h (b2n a.revOk * 2^33 + a.revVal)

/-- digest over the 4096 headers with the given currINF, currHF, s0 (all s1, s2) -/
def block (ci ch s0 : Nat) : UInt64 := Id.run do
  let mut h : UInt64 := 0xcbf29ce484222325
  for s1 in [0:64] do
    for s2 in [0:64] do
      h := digestOne h (ci * 2^30 + ch * 2^24 + s0 * 2^12 + s1 * 2^6 + s2)
  return h

def handle : List String → String
  | ["m", w] => match w.toNat? with
    | some w => render (answer w)
    | none => "bad-op"
  | ["blk", a, b, c] => match a.toNat?, b.toNat?, c.toNat? with
    | some a, some b, some c => toString (block a b c).toNat
    | _, _, _ => "bad-op"
  | _ => "bad-op"

end Driver.Meta

def main : IO Unit := Driver.statelessLoop Driver.Meta.handle
