import Driver.Common
import Scion.Model.Pather
/-! Driver for the path-lookup decision models (engine `pather`, property C30).
* `sp <src> <srcCore 0|1> <dst> <none | cores=<ia,..|-|err>;attr=<0|1|err>>`
   → `err` | `<up|core|down>:<src>><dst>,…`
* `gp <local> <dst> <now> <upFirst ia,..|-> <coreFirst ia,..|-> <revoked ia#id,..|-> <ids without
   next hop ,..|-> <splitErr 0|1> <fetchErr 0|1> <d>=<pid>:<expiry>:<ia#id+…|->/<pid>:…  …`
   → `baddst|local|spliterr|fetcherr|translateerr|none|panic|paths <sorted pids>` -/
namespace Driver.Pather
open Scion.Pather

def parseIA (s : String) : Option IA :=
  match s.splitOn "." with
  | [a, b] => match a.toNat?, b.toNat? with
    | some a, some b => some (a, b)
    | _, _ => none
  | _ => none

def listOf (s : String) (sep : String) : List String := if s == "-" then [] else s.splitOn sep

def parseKey (s : String) : Option (IA × Nat) :=
  match s.splitOn "#" with
  | [a, b] => match parseIA a, b.toNat? with
    | some a, some b => some (a, b)
    | _, _ => none
  | _ => none

def iaStr (ia : IA) : String := s!"{ia.1}.{ia.2}"

def tyStr : SegType → String
  | .up => "up" | .core => "core" | .down => "down"

def parseInsp (s : String) : Option (Option Inspector) :=
  if s == "none" then some none
  else match s.splitOn ";" with
    | [c, a] =>
      let cs := (c.drop 6).toString    -- "cores="
      let att := (a.drop 5).toString    -- "attr="
      let cores : Option (Option (List IA)) :=
        if cs == "err" then some none else ((listOf cs ",").mapM parseIA).map some
      let attr : Option (Option Bool) :=
        if att == "err" then some none else if att == "1" then some (some true)
        else if att == "0" then some (some false) else none
      match cores, attr with
      | some cores, some attr => some (some ⟨cores, attr⟩)
      | _, _ => none
    | _ => none

def parsePath (s : String) : Option CPath :=
  match s.splitOn ":" with
  | [pid, ex, ifs] =>
    match pid.toNat?, ex.toInt?, (listOf ifs "+").mapM parseKey with
    | some pid, some ex, some ifs => some ⟨pid, ex, ifs⟩
    | _, _, _ => none
  | _ => none

def parseTbl (s : String) : Option (IA × List CPath) :=
  match s.splitOn "=" with
  | [d, ps] => match parseIA d, (listOf ps "/").mapM parsePath with
    | some d, some ps => some (d, ps)
    | _, _ => none
  | _ => none

def insertSorted (x : Nat) : List Nat → List Nat
  | [] => [x]
  | y :: ys => if x ≤ y then x :: y :: ys else y :: insertSorted x ys

def sortNats (l : List Nat) : List Nat := l.foldr insertSorted []

def render : Result → String
  | .badDst => "baddst"
  | .localPath => "local"
  | .splitErr => "spliterr"
  | .fetchErr => "fetcherr"
  | .translateErr => "translateerr"
  | .none => "none"
  | .panic => "panic"
  | .paths ps => String.intercalate " " ("paths" :: (sortNats (ps.map (·.id))).map toString)

def handle : List String → String
  | ["sp", src, sc, dst, insp] =>
    match parseIA src, parseIA dst, parseInsp insp with
    | some src, some dst, some insp =>
      match split src (sc == "1") insp dst with
      | none => "err"
      | some rs => String.intercalate "," (rs.map fun r => s!"{tyStr r.ty}:{iaStr r.src}>{iaStr r.dst}")
    | _, _, _ => "bad-op"
  | "gp" :: loc :: dst :: now :: up :: core :: rev :: nonh :: serr :: ferr :: tbl =>
    match parseIA loc, parseIA dst, now.toInt?, (listOf up ",").mapM parseIA, (listOf core ",").mapM parseIA with
    | some loc, some dst, some now, some up, some core =>
      match (listOf rev ",").mapM parseKey, (listOf nonh ",").mapM (·.toNat?), tbl.mapM parseTbl with
      | some rev, some nonh, some tbl =>
        render (getPaths
          { localIA := loc, dst := dst, now := now, upFirst := up, coreFirst := core,
            combine := fun d => match tbl.lookup d with | some ps => ps | none => [],
            revoked := rev, hasNextHop := fun id => !nonh.contains id,
            splitErr := serr == "1", fetchErr := ferr == "1" })
      | _, _, _ => "bad-op"
    | _, _, _, _, _ => "bad-op"
  | _ => "bad-op"

end Driver.Pather

def main : IO Unit := Driver.statelessLoop Driver.Pather.handle
