import Driver.Common
import Scion.Util.R2Aes
import Scion.Model.Ohp
/-! Driver for engine `router2` (C12 one-hop paths, C13 EPIC, C15 links declared down).
    Parses the op, instantiates the `mac`/`prf` parameters with AES-CMAC / AES-CBC, calls the model, prints. -/
namespace Driver.Router2
open Scion.Util

def parsePair (s : String) : Option (Nat × Nat) :=
  match s.splitOn ":" with
  | [a, b] => match a.toNat?, b.toNat? with
    | some a, some b => some (a, b)
    | _, _ => none
  | _ => none

def parseNbs (s : String) : Option (List (Nat × Nat)) :=
  if s == "-" then some [] else (s.splitOn ",").mapM parsePair

def cmacWith (key : Bytes) : Scion.Ohp.Mac := fun m => Scion.R2Aes.cmacBytes key m

def renderOhp : Scion.Ohp.Res → String
  | .drop => "drop"
  | .fwd e p => s!"fwd {e} {hexOf (Scion.Ohp.encodePath p)}"

def handleOhp : List String → Option String
  | [loc, nbs, ing, src, dst, hb, al, dl, reg, res, key] => do
    let loc ← loc.toNat?
    let nbs ← parseNbs nbs
    let ing ← ing.toNat?
    let src ← src.toNat?
    let dst ← dst.toNat?
    let hb ← hb.toNat?
    let al ← al.toNat?
    let dl ← dl.toNat?
    let reg ← unhex reg
    let res ← res.toNat?
    let key ← unhex key
    let cfg : Scion.Ohp.Cfg := { localIA := loc, nbs := nbs }
    let pkt : Scion.Ohp.Pkt := { ingress := ing, srcIA := src, dstIA := dst, hdrBytes := hb, addrLen := al,
                                 dataLen := dl, region := reg, resolves := res == 1 }
    some (renderOhp (Scion.Ohp.process cfg (cmacWith key) pkt))
  | _ => none

def handle : List String → String
  | "ohp" :: rest => (handleOhp rest).getD "bad-op"
  | _ => "bad-op"

end Driver.Router2

def main : IO Unit := Driver.statelessLoop Driver.Router2.handle
