import Driver.Common
import Scion.Util.R2Aes
import Scion.Model.Ohp
import Scion.Model.Epic
import Scion.Model.LinkDown
/-! Driver for engine `router2` (C12 one-hop paths, C13 EPIC, C15 links declared down).
    Parses the op, instantiates the `mac`/`prf` parameters with AES-CMAC / AES-CBC, calls the model, prints. -/
namespace Driver.Router2
open Scion.Util

def parsePair (s : String) : Option (Nat × Nat) :=
  match s.splitOn ":" with
  | [a, b] => match a.toNat?, b.toNat? with
    | some a, some b => some (a, b)
    | _, _ => none
  | _ => none

def parseNbs (s : String) : Option (List (Nat × Nat)) :=
  if s == "-" then some [] else (s.splitOn ",").mapM parsePair

def cmacWith (key : Bytes) : Scion.Ohp.Mac := fun m => Scion.R2Aes.cmacBytes key m

def renderOhp : Scion.Ohp.Res → String
  | .drop => "drop"
  | .fwd e p => s!"fwd {e} {hexOf (Scion.Ohp.encodePath p)}"

def handleOhp : List String → Option String
  | [loc, nbs, ing, src, dst, hb, al, dl, pl, reg, res, key] => do
    let loc ← loc.toNat?
    let nbs ← parseNbs nbs
    let ing ← ing.toNat?
    let src ← src.toNat?
    let dst ← dst.toNat?
    let hb ← hb.toNat?
    let al ← al.toNat?
    let dl ← dl.toNat?
    let pl ← pl.toNat?
    let reg ← unhex reg
    let res ← res.toNat?
    let key ← unhex key
    let cfg : Scion.Ohp.Cfg := { localIA := loc, nbs := nbs }
    let pkt : Scion.Ohp.Pkt := { ingress := ing, srcIA := src, dstIA := dst, hdrBytes := hb, addrLen := al,
                                 dataLen := dl, payloadLen := pl, region := reg, resolves := res == 1 }
    some (renderOhp (Scion.Ohp.process cfg (cmacWith key) pkt))
  | _ => none

def cbcWith : Scion.Epic.Prf := fun key m => Scion.R2Aes.cbcLast key m

def handleEpic : List String → Option String
  | [loc, ing, src, dst, lb, sa, pl, pts, ctr, phvf, lhvf, sp, now, key, inner] => do
    let loc ← loc.toNat?
    let ing ← ing.toNat?
    let src ← src.toNat?
    let dst ← dst.toNat?
    let lb ← lb.toNat?
    let sa ← unhex sa
    let pl ← pl.toNat?
    let pts ← pts.toNat?
    let ctr ← ctr.toNat?
    let phvf ← unhex phvf
    let lhvf ← unhex lhvf
    let sp ← unhex sp
    let now ← now.toNat?
    let key ← unhex key
    let inner ← (if inner == "fwd" then some Scion.Epic.Inner.fwd else if inner == "other" then some .other else none)
    let pkt : Scion.Epic.Pkt := { ingress := ing, srcIA := src, dstIA := dst, srcLenBits := lb, srcAddr := sa, payloadLen := pl, pktTs := pts, pktCtr := ctr, phvf := phvf, lhvf := lhvf, scionPath := sp }
    match Scion.Epic.process loc (cmacWith key) cbcWith now inner pkt with
    | .asInner => some "inner"
    | .drop => some "drop"
  | _ => none

def handleEts : List String → Option String
  | [ts0, pts, now] => do
    let ts0 ← ts0.toNat?
    let pts ← pts.toNat?
    let now ← now.toNat?
    some (if Scion.Epic.fresh ts0 pts now then "ok" else "bad")
  | _ => none

def handleEmac : List String → Option String
  | [auth, lb, sa, src, pl, ts0, pts, ctr] => do
    let auth ← unhex auth
    let lb ← lb.toNat?
    let sa ← unhex sa
    let src ← src.toNat?
    let pl ← pl.toNat?
    let ts0 ← ts0.toNat?
    let pts ← pts.toNat?
    let ctr ← ctr.toNat?
    let pkt : Scion.Epic.Pkt := { ingress := 0, srcIA := src, dstIA := 0, srcLenBits := lb, srcAddr := sa, payloadLen := pl, pktTs := pts, pktCtr := ctr, phvf := [], lhvf := [], scionPath := [] }
    some (hexOf (Scion.Epic.calcMac cbcWith auth pkt ts0))
  | _ => none

open Scion.LinkDown in
def stOfNat : Nat → Option St
  | 0 => some .adminDown | 1 => some .down | 2 => some .init | 3 => some .up | _ => none

open Scion.LinkDown in
def natOfSt : St → Nat
  | .adminDown => 0 | .down => 1 | .init => 2 | .up => 3

open Scion.LinkDown in
def parseLink (s : String) : Option Link :=
  match s.splitOn ":" with
  | [sc, ifid, sess] => do
    let sc ← (if sc == "i" then some Scope.internal else if sc == "s" then some .sibling
              else if sc == "e" then some .external else none)
    let ifid ← ifid.toNat?
    let sess ← (if sess == "-" then some none else (sess.toNat?.bind stOfNat).map some)
    some { scope := sc, ifID := ifid, session := sess }
  | _ => none

open Scion.LinkDown in
def renderOut : Out → String
  | .bfd none => "st -"
  | .bfd (some st) => s!"st {natOfSt st}"
  | .fwd e => s!"fwd {e}"
  | .extDown ia i => s!"scmp 5 {ia} {i}"
  | .intDown ia a b => s!"scmp 6 {ia} {a} {b}"
  | .noLink => "nolink"

open Scion.LinkDown in
def handleLd (st : State) : List String → Option (State × String)
  | ["cfg", ia, links, ifs] => do
    let ia ← ia.toNat?
    let links ← (links.splitOn ",").mapM parseLink
    let ifs ← parseNbs ifs
    some ({ localIA := ia, links := links, ifaces := ifs }, "ok")
  | ["start"] =>
    some ({ st with links := st.links.map fun l => { l with session := l.session.map fun _ => St.down } }, "ok")
  | ["recv", ifid, r] => do
    let ifid ← ifid.toNat?
    let r ← r.toNat?.bind stOfNat
    let (st', out) := step st (.recv ifid r)
    some (st', renderOut out)
  | ["recvd", ifid, r, yd] => do
    let ifid ← ifid.toNat?
    let r ← r.toNat?.bind stOfNat
    let yd ← yd.toNat?
    let (st', out) := step st (.recvDisc ifid r yd)
    some (st', renderOut out)
  | ["recvt", ifid, r] => do
    let ifid ← ifid.toNat?
    let r ← r.toNat?.bind stOfNat
    let (st1, _) := step st (.recv ifid r)
    let (st2, out) := step st1 (.timeout ifid)
    some (st2, renderOut out)
  | ["ohp", b] => do
    let b ← b.toNat?
    let (st', out) := step st (.ohp b)
    some (st', renderOut out)
  | ["pkt", a, b] => do
    let a ← a.toNat?
    let b ← b.toNat?
    let (st', out) := step st (.pkt a b)
    some (st', renderOut out)
  | _ => none

def handle : List String → String
  | "ohp" :: rest => (handleOhp rest).getD "bad-op"
  | "epic" :: rest => (handleEpic rest).getD "bad-op"
  | "ets" :: rest => (handleEts rest).getD "bad-op"
  | "emac" :: rest => (handleEmac rest).getD "bad-op"
  | _ => "bad-op"

end Driver.Router2

def Driver.Router2.handleS (st : Scion.LinkDown.State) : List String → Scion.LinkDown.State × String
  | "ld" :: rest =>
    -- a trailing word starting with '#' identifies the position in the history; it carries no information
    let rest := rest.filter (fun w => !w.startsWith "#")
    match Driver.Router2.handleLd st rest with
    | some r => r
    | none => (st, "bad-op")
  | ws => (st, Driver.Router2.handle ws)

def main : IO Unit :=
  Driver.statefulLoop ({ localIA := 0, links := [], ifaces := [] } : Scion.LinkDown.State) Driver.Router2.handleS
