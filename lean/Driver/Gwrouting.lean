import Driver.Common
import Scion.Model.GwRouting
import Scion.Model.Pktcls
import Scion.Util.GwCodec
import Scion.Model.GwPolicyText
import Scion.Util.Hex
/-! Driver for the gateway routing model (engine `gwrouting`, property C42).  Stateful: `rt`
installs a routing table, `pol` a policy; the other ops query them. -/
namespace Driver.Gwrouting
open Scion.GwRouting Scion.Util.GwCodec
open Scion.Pktcls (Cond Pkt)

structure St where
  tbl : Table Cond
  pol : Policy

def init : St := { tbl := { entries := [], subs := [], sess := [] }, pol := { rules := [], dflt := .unknown } }

def decFam : String → Option Fam
  | "4" => some .v4
  | "6" => some .v6
  | _ => none

def decPrefix : List String → Option (Prefix × List String)
  | f :: b :: l :: r => do pure (⟨← decFam f, ← b.toNat?, ← l.toNat?⟩, r)
  | _ => none

def decN {α : Type} (dec : List String → Option (α × List String)) :
    Nat → List String → Option (List α × List String)
  | 0, ws => some ([], ws)
  | n + 1, ws => do
    let (x, r) ← dec ws
    let (xs, r') ← decN dec n r
    pure (x :: xs, r')

def decCounted {α : Type} (dec : List String → Option (α × List String)) :
    List String → Option (List α × List String)
  | n :: r => do decN dec (← n.toNat?) r
  | _ => none

def decMatcher : List String → Option ((Nat × Cond) × List String)
  | id :: r => do
    let (c, r') ← decCond r.length r
    pure ((← id.toNat?, c), r')
  | _ => none

def decChain (ws : List String) : Option (Chain Cond × List String) := do
  let (ps, r) ← decCounted decPrefix ws
  let (ms, r') ← decCounted decMatcher r
  pure ({ prefixes := ps, matchers := ms }, r')

def decIAM : Nat → List String → Option (IAMatcher × List String)
  | _, "s" :: i :: a :: r => do pure (.single ⟨← i.toNat?, ← a.toNat?⟩, r)
  | fuel + 1, "n" :: r => do
    let (m, r') ← decIAM fuel r
    pure (.neg m, r')
  | _, _ => none

def decAction : String → Option Action
  | "0" => some .unknown
  | "1" => some .accept
  | "2" => some .reject
  | "3" => some .advertise
  | "4" => some .redistribute
  | _ => none

def decRule : List String → Option (Rule × List String)
  | a :: r => do
    let act ← decAction a
    let (f, r1) ← decIAM r.length r
    let (t, r2) ← decIAM r1.length r1
    match r2 with
    | neg :: r3 =>
      let (ps, r4) ← decCounted decPrefix r3
      pure ({ action := act, src := f, dst := t, network := { allowed := ps, negated := neg == "1" } }, r4)
    | [] => none
  | _ => none

def decAddr : List String → Option (Addr × List String)
  | f :: v :: r => do pure (⟨← decFam f, ← v.toNat?⟩, r)
  | _ => none

/-! text-level rules for the `ptx` / `ppx` ops -/
open Scion.GwPolicyText (TRule) in
def decTAction : String → Option Scion.GwPolicyText.Action
  | "1" => some .accept
  | "2" => some .reject
  | "3" => some .advertise
  | "4" => some .redistribute
  | _ => none

def encTAction : Scion.GwPolicyText.Action → String
  | .accept => "1" | .reject => "2" | .advertise => "3" | .redistribute => "4"

def textOfHex (h : String) : Option (List Char) := do
  let bs ← Scion.Util.unhex h
  let s ← String.fromUTF8? (ByteArray.mk bs.toArray)
  pure s.toList

def hexOfText (cs : List Char) : String := Scion.Util.hexOf (String.ofList cs).toUTF8.toList

def decWords : Nat → List String → Option (List (List Char) × List String)
  | 0, ws => some ([], ws)
  | n + 1, w :: r => do
    let (xs, r') ← decWords n r
    pure (w.toList :: xs, r')
  | _ + 1, [] => none

def decTRule : List String → Option (Scion.GwPolicyText.TRule × List String)
  | a :: fn :: fi :: tn :: ti :: nn :: k :: r => do
    let act ← decTAction a
    let (nets, r1) ← decWords (← k.toNat?) r
    match r1 with
    | nh :: cm :: r2 =>
      let cmt ← textOfHex cm
      pure (⟨act, fn == "1", fi.toList, tn == "1", ti.toList, nn == "1", nets,
        if nh == "-" then [] else nh.toList, cmt⟩, r2)
    | _ => none
  | _ => none

def encTRule (r : Scion.GwPolicyText.TRule) : String :=
  s!"{encTAction r.action} {boolStr r.fromNeg} {String.ofList r.fromIA} {boolStr r.toNeg} {String.ofList r.toIA} {boolStr r.netNeg} {r.nets.length}" ++
    String.join (r.nets.map fun n => " " ++ String.ofList n) ++ " " ++
    (if r.nextHop.isEmpty then "-" else String.ofList r.nextHop) ++ " " ++ hexOfText r.comment

def showVerdict : Verdict → String
  | .invalid => "drop invalid"
  | .fragment => "drop fragment"
  | .noRoute => "drop noroute"
  | .session s => s!"sess {s}"

def showPrefix (p : Prefix) : String :=
  (match p.fam with | .v4 => "4" | .v6 => "6") ++ s!"/{p.bits}/{p.len}"

def evalC (c : Cond) (p : Pkt) : Bool := Scion.Pktcls.eval c p

def step (st : St) : List String → St × String
  | "rt" :: ws =>
    match decCounted decChain ws with
    | some (chains, []) =>
      let t := newTable chains
      ({ st with tbl := t }, s!"ok {(t.resolve.map (·.table.length)).sum}")
    | _ => (st, "bad-op")
  | ["set", id, s] =>
    match id.toNat?, s.toNat? with
    | some id, some s =>
      match setSession st.tbl id s with
      | some t => ({ st with tbl := t }, "ok")
      | none => (st, "err")
    | _, _ => (st, "bad-op")
  | ["clr", id] =>
    match id.toNat? with
    | some id =>
      match clearSession st.tbl id with
      | some t => ({ st with tbl := t }, "ok")
      | none => (st, "err")
    | none => (st, "bad-op")
  | ["pk", "inv"] => (st, showVerdict (forward evalC st.tbl.resolve (Input.invalid (P := Pkt))))
  | "pk" :: "4" :: dst :: frag :: ws =>
    match dst.toNat?, decPkt ws with
    | some dst, some (p, []) => (st, showVerdict (forward evalC st.tbl.resolve (.v4 dst (frag == "1") p)))
    | _, _ => (st, "bad-op")
  | "pk" :: "6" :: dst :: ws =>
    match dst.toNat?, decPkt ws with
    | some dst, some (p, []) => (st, showVerdict (forward evalC st.tbl.resolve (.v6 dst p)))
    | _, _ => (st, "bad-op")
  | "rte" :: f :: dst :: ws =>
    match decFam f, dst.toNat?, decPkt ws with
    | some f, some dst, some (p, []) =>
      (st, match route (fun c => evalC c p) st.tbl.resolve ⟨f, dst⟩ with
        | some s => s!"sess {s}"
        | none => "nil")
    | _, _, _ => (st, "bad-op")
  | "pol" :: d :: ws =>
    match decAction d, decCounted decRule ws with
    | some d, some (rs, []) => ({ st with pol := { rules := rs, dflt := d } }, s!"ok {rs.length}")
    | _, _ => (st, "bad-op")
  | "q" :: fi :: fa :: ti :: ta :: ws =>
    match fi.toNat?, fa.toNat?, ti.toNat?, ta.toNat?, decPrefix ws with
    | some fi, some fa, some ti, some ta, some (q, r) =>
      match decCounted decAddr r with
      | some (addrs, []) =>
        (st, String.ofList (addrs.map fun a =>
          if st.pol.matchMem ⟨fi, fa⟩ ⟨ti, ta⟩ q a then '1' else '0') ++ ".")
      | _ => (st, "bad-op")
    | _, _, _, _, _ => (st, "bad-op")
  | "ptx" :: ws =>
    match decCounted decTRule ws with
    | some (rs, []) => (st, hexOfText (Scion.GwPolicyText.marshal rs))
    | _ => (st, "bad-op")
  | ["ppx", h] =>
    match textOfHex h with
    | some t =>
      match Scion.GwPolicyText.unmarshal t with
      | some rs => (st, s!"{rs.length}" ++ String.join (rs.map fun r => " " ++ encTRule r))
      | none => (st, "err")
    | none => (st, "bad-op")
  | ["adv", fi, fa, ti, ta] =>
    match fi.toNat?, fa.toNat?, ti.toNat?, ta.toNat? with
    | some fi, some fa, some ti, some ta =>
      let l := advertiseList st.pol ⟨fi, fa⟩ ⟨ti, ta⟩
      (st, s!"{l.length}" ++ String.join (l.map fun p => " " ++ showPrefix p))
    | _, _, _, _ => (st, "bad-op")
  | _ => (st, "bad-op")

end Driver.Gwrouting

def main : IO Unit := Driver.statefulLoop Driver.Gwrouting.init Driver.Gwrouting.step
