import Driver.Common
import Scion.Model.BeaconPolicy
/-! Driver for the beacon receipt/propagation decision models (engine `beacon`, property C25).
ops (IA = `<isd>.<as>`):
* `hb <local> <-|lt:ia> <sigok> <npol> <tag;maxhops;allow;as,..;isd,..>*npol <local>ia>next>*`
* `pr <local> <allow> <next> <hop>*`  → `send|ignore`
* `fa <maxhops;allow;as;isd> <hop>*`  → `accept|reject`  (no InitDefaults)
* `fl <allow> <next> <hop>*`          → `loop|ok` -/
namespace Driver.Beacon
open Scion.BeaconPolicy

def parseIA (s : String) : Option IA :=
  match s.splitOn "." with
  | [a, b] => match a.toNat?, b.toNat? with
    | some a, some b => some (a, b)
    | _, _ => none
  | _ => none

def parseNats (s : String) : Option (List Nat) :=
  if s == "-" then some [] else (s.splitOn ",").mapM (·.toNat?)

def parseAllow (s : String) : Option (Option Bool) :=
  if s == "nil" then some none else if s == "1" then some (some true)
  else if s == "0" then some (some false) else none

def parseRaw : List String → Option RawFilter
  | [mh, al, asb, isdb] =>
    match mh.toInt?, parseAllow al, parseNats asb, parseNats isdb with
    | some mh, some al, some a, some i => some ⟨mh, a, i, al⟩
    | _, _, _, _ => none
  | _ => none

def parseTag (s : String) : Option PolicyTag :=
  if s == "prop" then some .prop else if s == "up" then some .upReg
  else if s == "down" then some .downReg else if s == "core" then some .coreReg else none

def parsePol (s : String) : Option (PolicyTag × Filter) :=
  match s.splitOn ";" with
  | t :: rest => match parseTag t, parseRaw rest with
    | some t, some f => some (t, f.initDefaults)
    | _, _ => none
  | _ => none

def parseLT (s : String) : Option LinkType :=
  if s == "core" then some .core else if s == "parent" then some .parent
  else if s == "child" then some .child else if s == "peer" then some .peer
  else if s == "unset" then some .unset else if s.startsWith "other" then some .other else none

def parseIntf (s : String) : Option (Option Intf) :=
  if s == "-" then some none
  else match s.splitOn ":" with
    | [lt, ia] => match parseLT lt, parseIA ia with
      | some lt, some ia => some (some ⟨ia, lt⟩)
      | _, _ => none
    | _ => none

def parseEntry (s : String) : Option (IA × IA) :=
  match s.splitOn ">" with
  | [a, b] => match parseIA a, parseIA b with
    | some a, some b => some (a, b)
    | _, _ => none
  | _ => none

def renderOutcome : Outcome → String
  | .noInterface => "noif"
  | .preFiltered => "prefiltered"
  | .invalid => "invalid"
  | .unverified => "unverified"
  | .filtered => "filtered"
  | .stored u => s!"stored {usageBits u}"
  | .panic => "panic"

def handleHB (loc ifw sig np : String) (rest : List String) : String :=
  match parseIA loc, parseIntf ifw, np.toNat? with
  | some loc, some intf, some np =>
    match (rest.take np).mapM parsePol, (rest.drop np).mapM parseEntry with
    | some ps, some es =>
      if (rest.take np).length ≠ np then "bad-op"
      else renderOutcome (handle loc ps intf es (sig == "1"))
    | _, _ => "bad-op"
  | _, _, _ => "bad-op"

def handle' : List String → String
  | "hb" :: loc :: ifw :: sig :: np :: rest => handleHB loc ifw sig np rest
  | "pr" :: loc :: al :: nx :: hops =>
    match parseIA loc, parseIA nx, hops.mapM parseIA with
    | some loc, some nx, some hops =>
      if shouldIgnore loc (al == "1") hops nx then "ignore" else "send"
    | _, _, _ => "bad-op"
  | "fa" :: f :: hops =>
    match parseRaw (f.splitOn ";"), hops.mapM parseIA with
    | some f, some hops =>
      match f.allowIsdLoop with
      | none => "bad-op"
      | some al =>
        if (Filter.accepts ⟨f.maxHops, f.asBlack, f.isdBlack, al⟩ hops) then "accept" else "reject"
    | _, _ => "bad-op"
  | "fl" :: al :: nx :: hops =>
    match parseIA nx, hops.mapM parseIA with
    | some nx, some hops => if filterLoop hops nx (al == "1") then "loop" else "ok"
    | _, _ => "bad-op"
  | _ => "bad-op"

end Driver.Beacon

def main : IO Unit := Driver.statelessLoop Driver.Beacon.handle'
