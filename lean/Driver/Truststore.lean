import Driver.Common
import Scion.Model.TrustStore
/-! Driver for the trust-store model (engine `truststore`, property C35): stateful, the state is
the TRC table.  Formats: see `harness/cmd/truststore/c35.go`. -/
namespace Driver.Truststore
open Scion.TrustStore

def splitList (s : String) (sep : Char) : List String :=
  if s == "-" then [] else (s.split (· == sep)).toList.map (·.toString)

def parseRec (ws : List String) : Option Rec :=
  match ws with
  | [isd, base, serial, fp] => do
    some { isd := ← isd.toNat?, base := ← base.toNat?, serial := ← serial.toNat?, fp := ← fp.toNat? }
  | _ => none

def parseFile (s : String) : Option File :=
  if s == "bad" then some .bad else
  match splitList s '.' with
  | [isd, base, serial, fp, fut] => (parseRec [isd, base, serial, fp]).map (fun r => .trc r (fut == "1"))
  | _ => none

def parseFetch (s : String) : Option Fetch :=
  if s == "err" then some .err else (parseRec (splitList s '.')).map .trc

def parsePair (s : String) : Option (Nat × Nat) :=
  match splitList s '>' with
  | [a, b] => do some (← a.toNat?, ← b.toNat?)
  | _ => none

def recLe (a b : Rec) : Bool :=
  a.isd < b.isd || (a.isd == b.isd && (a.base < b.base || (a.base == b.base &&
    (a.serial < b.serial || (a.serial == b.serial && a.fp ≤ b.fp)))))

def insertSorted (x : Rec) : List Rec → List Rec
  | [] => [x]
  | y :: ys => if recLe x y then x :: y :: ys else y :: insertSorted x ys

def showRec (r : Rec) : String := s!"{r.isd}.{r.base}.{r.serial}.{r.fp}"

/-- the harness prints the records sorted as strings; sort the same way -/
def insertStr (x : String) : List String → List String
  | [] => [x]
  | y :: ys => if x ≤ y then x :: y :: ys else y :: insertStr x ys

def dump (db : DB) : String :=
  if db.isEmpty then "-" else ",".intercalate ((db.map showRec).foldr insertStr [])

def okErr (b : Bool) : String := if b then "ok" else "err"

def handle (db : DB) : List String → DB × String
  | ["reset"] => ([], "ok")
  | ["load", files] =>
    match (splitList files ',').mapM parseFile with
    | some fs =>
      let r := load db fs
      (r.db, s!"{okErr (!r.failed)} n={r.loaded.length} db={dump r.db}")
    | none => (db, "bad-op")
  | ["notify", isd, base, serial, allow, v, s] =>
    match isd.toNat?, base.toNat?, serial.toNat?,
      (splitList (v.drop 2).toString ',').mapM parsePair,
      (splitList (s.drop 2).toString ',').mapM parseFetch with
    | some isd, some base, some serial, some tbl, some script =>
      let ver : Rec → Rec → Bool := fun p f => tbl.contains (p.fp, f.fp)
      let r := notify ver db isd base serial (allow == "1") script
      (r.db, s!"{okErr r.out.isOk} f={r.fetches} db={dump r.db}")
    | _, _, _, _, _ => (db, "bad-op")
  | _ => (db, "bad-op")

end Driver.Truststore

def main : IO Unit := Driver.statefulLoop ([] : Scion.TrustStore.DB) Driver.Truststore.handle
